package ref

import (
	"fmt"
	"math"
	"sort"
)

// ---------------------------------------------------------------- encoder

// EncodeOptions selects among the valid encodings of a value.  The zero
// value is the canonical form: narrowest integers, STRING1 up to 255 bytes,
// SimpleList for byte vectors, optional members that equal their default
// are left out, map entries in the order of the value tree.
type EncodeOptions struct {
	KeepDefaults bool // write optional members even when they equal their default
	BytesAsList  bool // write byte vectors as LIST of integer elements
	SortMaps     bool // write map entries sorted by canonical key
}

// isDefault decides whether an optional member may be left out: scalars and
// strings equal to the default (floats: numerically equal, so -0 == 0 and
// NaN never), empty vectors and maps; structs are always written.
func isDefault(m *Member, v *Value) bool {
	d := DefaultOf(m)
	t := m.Type
	switch {
	case t.Kind.IsInteger():
		return v.Int == d.Int
	case t.Kind == KFloat:
		return math.Float32frombits(uint32(v.Bits)) == math.Float32frombits(uint32(d.Bits))
	case t.Kind == KDouble:
		return math.Float64frombits(v.Bits) == math.Float64frombits(d.Bits)
	case t.Kind == KString:
		return v.Str == d.Str
	case t.Kind == KVector:
		if t.IsBytes() {
			return len(v.Bytes) == 0
		}
		return len(v.Elems) == 0
	case t.Kind == KMap:
		return len(v.Keys) == 0
	}
	return false
}

func schemaErr(path, format string, a ...any) *Error {
	return &Error{Code: ErrSchema, Path: path, Msg: fmt.Sprintf(format, a...)}
}

// ToNode converts a value of type t into the wire tree of one field.
func ToNode(t *Type, tag uint8, v *Value, o EncodeOptions) (*Node, error) {
	return toNode(t, tag, v, o, "")
}

func toNode(t *Type, tag uint8, v *Value, o EncodeOptions, path string) (*Node, error) {
	if v == nil {
		return nil, schemaErr(path, "nil value for %s", t)
	}
	switch {
	case t.Kind.IsInteger():
		lo, hi := t.Kind.IntRange()
		if v.Int < lo || v.Int > hi {
			return nil, &Error{Code: ErrRange, Path: path, Msg: fmt.Sprintf("%d outside %s", v.Int, t.Kind)}
		}
		return NInt(tag, v.Int), nil
	case t.Kind == KFloat:
		return NFloat(tag, uint32(v.Bits)), nil
	case t.Kind == KDouble:
		return NDouble(tag, v.Bits), nil
	case t.Kind == KString:
		return NStr(tag, []byte(v.Str)), nil
	case t.Kind == KVector || t.Kind == KArray:
		if t.IsBytes() {
			if t.Kind == KArray && len(v.Bytes) > t.N {
				return nil, &Error{Code: ErrRange, Path: path, Msg: "array longer than declared"}
			}
			if !o.BytesAsList {
				return NBytes(tag, v.Bytes), nil
			}
			n := &Node{Tag: tag, Type: WList}
			for _, b := range v.Bytes {
				x := int64(int8(b))
				if t.Elem.Kind == KUint8 {
					x = int64(b)
				}
				n.Kids = append(n.Kids, NInt(0, x))
			}
			return n, nil
		}
		if t.Kind == KArray && len(v.Elems) > t.N {
			return nil, &Error{Code: ErrRange, Path: path, Msg: "array longer than declared"}
		}
		n := &Node{Tag: tag, Type: WList}
		for i, e := range v.Elems {
			k, err := toNode(t.Elem, 0, e, o, fmt.Sprintf("%s[%d]", path, i))
			if err != nil {
				return nil, err
			}
			n.Kids = append(n.Kids, k)
		}
		return n, nil
	case t.Kind == KMap:
		if len(v.Keys) != len(v.Vals) {
			return nil, schemaErr(path, "map with %d keys and %d values", len(v.Keys), len(v.Vals))
		}
		idx := make([]int, len(v.Keys))
		for i := range idx {
			idx[i] = i
		}
		if o.SortMaps {
			ks := make([]string, len(v.Keys))
			for i, k := range v.Keys {
				ks[i] = KeyString(t.Key, k)
			}
			sort.SliceStable(idx, func(a, b int) bool { return ks[idx[a]] < ks[idx[b]] })
		}
		n := &Node{Tag: tag, Type: WMap}
		for _, i := range idx {
			k, err := toNode(t.Key, 0, v.Keys[i], o, path+"{key}")
			if err != nil {
				return nil, err
			}
			x, err := toNode(t.Val, 1, v.Vals[i], o, path+"{val}")
			if err != nil {
				return nil, err
			}
			n.Kids = append(n.Kids, k, x)
		}
		return n, nil
	case t.Kind == KStruct:
		kids, err := toNodes(t.Struct, v, o, path)
		if err != nil {
			return nil, err
		}
		return &Node{Tag: tag, Type: WStructBegin, Kids: kids}, nil
	}
	return nil, schemaErr(path, "unsupported kind %s", t.Kind)
}

// ToNodes converts a struct value into the member fields of its body.
func ToNodes(st *StructDef, v *Value, o EncodeOptions) ([]*Node, error) {
	return toNodes(st, v, o, "")
}

func toNodes(st *StructDef, v *Value, o EncodeOptions, path string) ([]*Node, error) {
	if v == nil || len(v.Elems) != len(st.Members) {
		return nil, schemaErr(path, "struct value does not match %s", st.QName())
	}
	var out []*Node
	for i, m := range st.Members {
		mv := v.Elems[i]
		if mv == nil {
			return nil, schemaErr(path+"."+m.Name, "nil member")
		}
		if !m.Require && !o.KeepDefaults && isDefault(m, mv) {
			continue
		}
		n, err := toNode(m.Type, m.Tag, mv, o, path+"."+m.Name)
		if err != nil {
			return nil, err
		}
		out = append(out, n)
	}
	return out, nil
}

// Encode is the canonical encoding of a struct body (what WriteTo emits:
// members only, no StructBegin/StructEnd frame).
func Encode(st *StructDef, v *Value) ([]byte, error) { return EncodeWith(st, v, EncodeOptions{}) }

// EncodeWith is Encode with options.
func EncodeWith(st *StructDef, v *Value, o EncodeOptions) ([]byte, error) {
	ns, err := ToNodes(st, v, o)
	if err != nil {
		return nil, err
	}
	return EncodeNodes(ns), nil
}

// EncodeField is the canonical encoding of one field of type t with the
// given tag (a struct is framed by StructBegin/StructEnd: WriteBlock).
func EncodeField(t *Type, tag uint8, v *Value) ([]byte, error) {
	n, err := ToNode(t, tag, v, EncodeOptions{})
	if err != nil {
		return nil, err
	}
	return n.Bytes(), nil
}

// MustEncode panics on error (for tests and generators working on values
// that are valid by construction).
func MustEncode(st *StructDef, v *Value, o EncodeOptions) []byte {
	b, err := EncodeWith(st, v, o)
	if err != nil {
		panic(err)
	}
	return b
}

// ---------------------------------------------------------------- decoder

// Decode strictly decodes b as the body of struct st (ReadFrom: members up
// to the end of input).  Every rule of Appendix B applies: complete fields
// only, lengths within the input, admissible wire types, ascending unique
// tags, required members present, unknown tags skipped by exact sizing.
func Decode(st *StructDef, b []byte) (*Value, error) {
	fields, err := Parse(b)
	if err != nil {
		return nil, err
	}
	v, _, err := FromNodes(st, fields)
	return v, err
}

// DecodePrefix decodes the longest run of complete top-level fields at the
// start of b and reports how many bytes they cover; perr is the parse error
// that ended the run (nil when all of b was complete fields).  The value is
// what "the complete fields that are present" determine.
func DecodePrefix(st *StructDef, b []byte) (v *Value, consumed int, perr error, err error) {
	fields, n, perr := ParsePrefix(b)
	v, _, err = FromNodes(st, fields)
	return v, n, perr, err
}

// DecodeField strictly decodes one field of type t at the start of b; it
// must carry the given tag.  Returns the value and the bytes consumed.
func DecodeField(t *Type, tag uint8, b []byte) (*Value, int, error) {
	n, sz, err := ParseField(b)
	if err != nil {
		return nil, 0, err
	}
	if n.Tag != tag {
		return nil, 0, &Error{Code: ErrMissing, Off: 0, Wire: n.Type, Msg: fmt.Sprintf("tag %d, want %d", n.Tag, tag)}
	}
	v, err := FromNode(t, n)
	return v, sz, err
}

// FromNodes interprets parsed member fields under struct st.  present[i]
// tells whether member i was on the wire.
func FromNodes(st *StructDef, fields []*Node) (v *Value, present []bool, err error) {
	return fromNodes(st, fields, "")
}

func fromNodes(st *StructDef, fields []*Node, path string) (*Value, []bool, error) {
	v := &Value{Kind: KStruct, Elems: make([]*Value, len(st.Members))}
	present := make([]bool, len(st.Members))
	for _, f := range fields {
		i, m := st.MemberByTag(f.Tag)
		if m == nil {
			continue // unknown tag: skipped (it was sized exactly by the parser)
		}
		if present[i] {
			return nil, nil, &Error{Code: ErrDupTag, Off: f.Start, Wire: f.Type, Path: path + "." + m.Name}
		}
		mv, err := fromNode(m.Type, f, path+"."+m.Name)
		if err != nil {
			return nil, nil, err
		}
		v.Elems[i] = mv
		present[i] = true
	}
	for i, m := range st.Members {
		if present[i] {
			continue
		}
		if m.Require {
			return nil, nil, &Error{Code: ErrMissing, Path: path + "." + m.Name, Msg: fmt.Sprintf("required tag %d absent", m.Tag)}
		}
		v.Elems[i] = DefaultOf(m)
	}
	return v, present, nil
}

// FromNode interprets one parsed field under schema type t.
func FromNode(t *Type, n *Node) (*Value, error) { return fromNode(t, n, "") }

func fromNode(t *Type, n *Node, path string) (*Value, error) {
	if !t.Admissible(n.Type) {
		return nil, &Error{Code: ErrMistyped, Off: n.Start, Wire: n.Type, Path: path,
			Msg: fmt.Sprintf("%s cannot be carried by %s", t, n.Type)}
	}
	rangeErr := func(x int64, k Kind) *Error {
		return &Error{Code: ErrRange, Off: n.Start, Wire: n.Type, Path: path, Msg: fmt.Sprintf("%d outside %s", x, k)}
	}
	switch {
	case t.Kind == KBool:
		if n.Int != 0 {
			return &Value{Kind: KBool, Int: 1}, nil
		}
		return &Value{Kind: KBool}, nil
	case t.Kind.IsInteger():
		lo, hi := t.Kind.IntRange()
		if n.Int < lo || n.Int > hi {
			return nil, rangeErr(n.Int, t.Kind)
		}
		return &Value{Kind: t.Kind, Int: n.Int}, nil
	case t.Kind == KFloat:
		return &Value{Kind: KFloat, Bits: uint64(uint32(n.Bits))}, nil // ZeroTag: Bits 0 = +0
	case t.Kind == KDouble:
		if n.Type == WFloat {
			return &Value{Kind: KDouble, Bits: math.Float64bits(float64(math.Float32frombits(uint32(n.Bits))))}, nil
		}
		return &Value{Kind: KDouble, Bits: n.Bits}, nil
	case t.Kind == KString:
		return &Value{Kind: KString, Str: string(n.Data)}, nil
	case t.Kind == KVector || t.Kind == KArray:
		v := &Value{Kind: t.Kind}
		if t.IsBytes() {
			if n.Type == WSimpleList {
				v.Bytes = append([]byte{}, n.Data...)
			} else {
				v.Bytes = make([]byte, len(n.Kids))
				lo, hi := t.Elem.Kind.IntRange()
				for i, k := range n.Kids {
					if !t.Elem.Admissible(k.Type) {
						return nil, &Error{Code: ErrMistyped, Off: k.Start, Wire: k.Type, Path: fmt.Sprintf("%s[%d]", path, i),
							Msg: fmt.Sprintf("%s cannot be carried by %s", t.Elem, k.Type)}
					}
					if k.Int < lo || k.Int > hi {
						return nil, rangeErr(k.Int, t.Elem.Kind)
					}
					v.Bytes[i] = byte(k.Int)
				}
			}
			if t.Kind == KArray {
				if len(v.Bytes) > t.N {
					return nil, &Error{Code: ErrRange, Off: n.Start, Wire: n.Type, Path: path, Msg: "more elements than the array holds"}
				}
				v.Bytes = append(v.Bytes, make([]byte, t.N-len(v.Bytes))...)
			}
			return v, nil
		}
		if t.Kind == KArray && len(n.Kids) > t.N {
			return nil, &Error{Code: ErrRange, Off: n.Start, Wire: n.Type, Path: path, Msg: "more elements than the array holds"}
		}
		v.Elems = make([]*Value, 0, len(n.Kids))
		for i, k := range n.Kids {
			e, err := fromNode(t.Elem, k, fmt.Sprintf("%s[%d]", path, i))
			if err != nil {
				return nil, err
			}
			v.Elems = append(v.Elems, e)
		}
		if t.Kind == KArray {
			for len(v.Elems) < t.N {
				v.Elems = append(v.Elems, Zero(t.Elem))
			}
		}
		return v, nil
	case t.Kind == KMap:
		v := &Value{Kind: KMap}
		for i := 0; i+1 < len(n.Kids); i += 2 {
			k, err := fromNode(t.Key, n.Kids[i], path+"{key}")
			if err != nil {
				return nil, err
			}
			x, err := fromNode(t.Val, n.Kids[i+1], path+"{val}")
			if err != nil {
				return nil, err
			}
			v.Keys = append(v.Keys, k)
			v.Vals = append(v.Vals, x)
		}
		return v, nil
	case t.Kind == KStruct:
		v, _, err := fromNodes(t.Struct, n.Kids, path)
		return v, err
	}
	return nil, schemaErr(path, "unsupported kind %s", t.Kind)
}

// TypedNode pairs a wire field with the schema type it is read under.
type TypedNode struct {
	Node *Node
	Type *Type
	Path string
}

// TypedWalk pairs every field of a parsed body (at any nesting level: struct
// members, list elements, map keys and values) with its schema type.  Fields
// with unknown tags and children of mistyped fields are not visited.
func TypedWalk(st *StructDef, fields []*Node, visit func(TypedNode)) {
	typedBody(st, fields, "", visit)
}

func typedBody(st *StructDef, fields []*Node, path string, visit func(TypedNode)) {
	for _, f := range fields {
		_, m := st.MemberByTag(f.Tag)
		if m == nil {
			continue
		}
		typedField(m.Type, f, path+"."+m.Name, visit)
	}
}

func typedField(t *Type, n *Node, path string, visit func(TypedNode)) {
	visit(TypedNode{Node: n, Type: t, Path: path})
	if !t.Admissible(n.Type) {
		return
	}
	switch t.Kind {
	case KVector, KArray:
		if n.Type == WList {
			for _, k := range n.Kids {
				typedField(t.Elem, k, path+"[]", visit)
			}
		}
	case KMap:
		for i, k := range n.Kids {
			if i%2 == 0 {
				typedField(t.Key, k, path+"{key}", visit)
			} else {
				typedField(t.Val, k, path+"{val}", visit)
			}
		}
	case KStruct:
		typedBody(t.Struct, n.Kids, path, visit)
	}
}
