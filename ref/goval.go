package ref

import (
	"fmt"
	"math"
	"reflect"
	"sort"
	"unicode"
	"unicode/utf8"
)

// Reflection bridge between value trees and the Go types tars2go generates:
// struct members are the capitalised IDL member names; byte -> int8,
// unsigned byte -> uint8, enum -> named int32, vector<T> -> []T,
// T x[N] -> [N]T, map<K,V> -> map[K]V.  Nothing here imports TarsGo.

// GoFieldName is the Go field name of an IDL member (first letter upper-cased).
func GoFieldName(name string) string {
	if name == "" {
		return name
	}
	r, n := utf8.DecodeRuneInString(name)
	return string(unicode.ToUpper(r)) + name[n:]
}

// CheckGoType verifies that Go type gt can hold values of schema type t.
func CheckGoType(t *Type, gt reflect.Type) error { return checkGoType(t, gt, t.String()) }

func checkGoType(t *Type, gt reflect.Type, path string) error {
	bad := func() error { return fmt.Errorf("%s: schema type %s does not fit Go type %s", path, t, gt) }
	want := map[Kind]reflect.Kind{KBool: reflect.Bool, KInt8: reflect.Int8, KUint8: reflect.Uint8, KInt16: reflect.Int16,
		KUint16: reflect.Uint16, KInt32: reflect.Int32, KUint32: reflect.Uint32, KInt64: reflect.Int64,
		KFloat: reflect.Float32, KDouble: reflect.Float64, KString: reflect.String, KEnum: reflect.Int32}
	switch t.Kind {
	case KVector:
		if gt.Kind() != reflect.Slice {
			return bad()
		}
		return checkGoType(t.Elem, gt.Elem(), path+"[]")
	case KArray:
		if gt.Kind() != reflect.Array || gt.Len() != t.N {
			return bad()
		}
		return checkGoType(t.Elem, gt.Elem(), path+"[]")
	case KMap:
		if gt.Kind() != reflect.Map {
			return bad()
		}
		if err := checkGoType(t.Key, gt.Key(), path+"{key}"); err != nil {
			return err
		}
		return checkGoType(t.Val, gt.Elem(), path+"{val}")
	case KStruct:
		if gt.Kind() != reflect.Struct {
			return bad()
		}
		for _, m := range t.Struct.Members {
			f, ok := gt.FieldByName(GoFieldName(m.Name))
			if !ok {
				return fmt.Errorf("%s: Go type %s has no field %s", path, gt, GoFieldName(m.Name))
			}
			if err := checkGoType(m.Type, f.Type, path+"."+m.Name); err != nil {
				return err
			}
		}
		return nil
	}
	if gt.Kind() != want[t.Kind] {
		return bad()
	}
	return nil
}

// ToGo stores value v of schema type t into dst (a settable reflect.Value,
// e.g. reflect.ValueOf(&goStruct).Elem()).
func ToGo(t *Type, v *Value, dst reflect.Value) error {
	switch {
	case t.Kind == KBool:
		dst.SetBool(v.Int != 0)
	case t.Kind == KUint8 || t.Kind == KUint16 || t.Kind == KUint32:
		dst.SetUint(uint64(v.Int))
	case t.Kind.IsInteger():
		dst.SetInt(v.Int)
	case t.Kind == KFloat:
		dst.SetFloat(float64(math.Float32frombits(uint32(v.Bits))))
		// SetFloat goes through float64: restore the exact pattern (signalling NaNs)
		if dst.CanAddr() {
			*(*uint32)(dst.Addr().UnsafePointer()) = uint32(v.Bits)
		}
	case t.Kind == KDouble:
		dst.SetFloat(math.Float64frombits(v.Bits))
		if dst.CanAddr() {
			*(*uint64)(dst.Addr().UnsafePointer()) = v.Bits
		}
	case t.Kind == KString:
		dst.SetString(v.Str)
	case t.Kind == KVector || t.Kind == KArray:
		n := len(v.Elems)
		if t.IsBytes() {
			n = len(v.Bytes)
		}
		if t.Kind == KVector {
			dst.Set(reflect.MakeSlice(dst.Type(), n, n))
		} else if n > dst.Len() {
			return fmt.Errorf("array value longer than %s", dst.Type())
		}
		for i := 0; i < n; i++ {
			if t.IsBytes() {
				if t.Elem.Kind == KUint8 {
					dst.Index(i).SetUint(uint64(v.Bytes[i]))
				} else {
					dst.Index(i).SetInt(int64(int8(v.Bytes[i])))
				}
				continue
			}
			if err := ToGo(t.Elem, v.Elems[i], dst.Index(i)); err != nil {
				return err
			}
		}
	case t.Kind == KMap:
		dst.Set(reflect.MakeMapWithSize(dst.Type(), len(v.Keys)))
		for i := range v.Keys {
			k := reflect.New(dst.Type().Key()).Elem()
			x := reflect.New(dst.Type().Elem()).Elem()
			if err := ToGo(t.Key, v.Keys[i], k); err != nil {
				return err
			}
			if err := ToGo(t.Val, v.Vals[i], x); err != nil {
				return err
			}
			dst.SetMapIndex(k, x)
		}
	case t.Kind == KStruct:
		if len(v.Elems) != len(t.Struct.Members) {
			return fmt.Errorf("struct value does not match %s", t)
		}
		for i, m := range t.Struct.Members {
			f := dst.FieldByName(GoFieldName(m.Name))
			if !f.IsValid() {
				return fmt.Errorf("Go type %s has no field %s", dst.Type(), GoFieldName(m.Name))
			}
			if err := ToGo(m.Type, v.Elems[i], f); err != nil {
				return err
			}
		}
	default:
		return fmt.Errorf("unsupported kind %s", t.Kind)
	}
	return nil
}

// FromGo reads a Go value (struct, not pointer) into a value tree of schema
// type t.  Map entries come out sorted by canonical key.
func FromGo(t *Type, src reflect.Value) (*Value, error) {
	switch {
	case t.Kind == KBool:
		return VBool(src.Bool()), nil
	case t.Kind == KUint8 || t.Kind == KUint16 || t.Kind == KUint32:
		return VInt(t.Kind, int64(src.Uint())), nil
	case t.Kind.IsInteger():
		return VInt(t.Kind, src.Int()), nil
	case t.Kind == KFloat:
		if src.CanAddr() {
			return VFloat(*(*uint32)(src.Addr().UnsafePointer())), nil
		}
		return VFloat(math.Float32bits(float32(src.Float()))), nil
	case t.Kind == KDouble:
		return VDouble(math.Float64bits(src.Float())), nil
	case t.Kind == KString:
		return VString(src.String()), nil
	case t.Kind == KVector || t.Kind == KArray:
		v := &Value{Kind: t.Kind}
		n := src.Len()
		if t.IsBytes() {
			v.Bytes = make([]byte, n)
			for i := 0; i < n; i++ {
				if t.Elem.Kind == KUint8 {
					v.Bytes[i] = byte(src.Index(i).Uint())
				} else {
					v.Bytes[i] = byte(src.Index(i).Int())
				}
			}
			return v, nil
		}
		v.Elems = make([]*Value, n)
		for i := 0; i < n; i++ {
			e, err := FromGo(t.Elem, src.Index(i))
			if err != nil {
				return nil, err
			}
			v.Elems[i] = e
		}
		return v, nil
	case t.Kind == KMap:
		v := &Value{Kind: KMap}
		type ent struct {
			ks   string
			k, x *Value
		}
		var ents []ent
		it := src.MapRange()
		for it.Next() {
			// copies, so that float members stay addressable for exact bits
			kc := reflect.New(src.Type().Key()).Elem()
			kc.Set(it.Key())
			xc := reflect.New(src.Type().Elem()).Elem()
			xc.Set(it.Value())
			k, err := FromGo(t.Key, kc)
			if err != nil {
				return nil, err
			}
			x, err := FromGo(t.Val, xc)
			if err != nil {
				return nil, err
			}
			ents = append(ents, ent{KeyString(t.Key, k), k, x})
		}
		sort.Slice(ents, func(i, j int) bool { return ents[i].ks < ents[j].ks })
		for _, e := range ents {
			v.Keys = append(v.Keys, e.k)
			v.Vals = append(v.Vals, e.x)
		}
		return v, nil
	case t.Kind == KStruct:
		v := &Value{Kind: KStruct, Elems: make([]*Value, len(t.Struct.Members))}
		for i, m := range t.Struct.Members {
			f := src.FieldByName(GoFieldName(m.Name))
			if !f.IsValid() {
				return nil, fmt.Errorf("Go type %s has no field %s", src.Type(), GoFieldName(m.Name))
			}
			e, err := FromGo(m.Type, f)
			if err != nil {
				return nil, err
			}
			v.Elems[i] = e
		}
		return v, nil
	}
	return nil, fmt.Errorf("unsupported kind %s", t.Kind)
}
