package ref

import (
	"fmt"
	"math"
	"os"
	"path/filepath"
	"strconv"
	"strings"
)

// A small, independent reader for .tars IDL files: modules, enums, consts,
// structs (require/optional, defaults, vector/map/array/nested and
// module-qualified types), key[...] declarations (ignored), #include, and
// interfaces (only names are kept).  It shares nothing with TarsGo's tars2go.

type idlTok struct {
	kind byte // 'i' identifier, 'n' number, 's' string, 'p' punctuation, 0 EOF
	text string
	line int
}

type idlLexer struct {
	src  []byte
	pos  int
	line int
	file string
}

func (l *idlLexer) errf(line int, format string, a ...any) error {
	return fmt.Errorf("%s:%d: %s", l.file, line, fmt.Sprintf(format, a...))
}

func isIdentStart(c byte) bool {
	return c == '_' || (c >= 'a' && c <= 'z') || (c >= 'A' && c <= 'Z')
}
func isDigit(c byte) bool { return c >= '0' && c <= '9' }

func (l *idlLexer) next() (idlTok, error) {
	for l.pos < len(l.src) {
		c := l.src[l.pos]
		switch {
		case c == '\n':
			l.line++
			l.pos++
		case c == ' ' || c == '\t' || c == '\r' || c == 0xEF || c == 0xBB || c == 0xBF:
			l.pos++
		case c == '/' && l.pos+1 < len(l.src) && l.src[l.pos+1] == '/':
			for l.pos < len(l.src) && l.src[l.pos] != '\n' {
				l.pos++
			}
		case c == '/' && l.pos+1 < len(l.src) && l.src[l.pos+1] == '*':
			start := l.line
			l.pos += 2
			for {
				if l.pos+1 >= len(l.src) {
					return idlTok{}, l.errf(start, "unterminated comment")
				}
				if l.src[l.pos] == '\n' {
					l.line++
				}
				if l.src[l.pos] == '*' && l.src[l.pos+1] == '/' {
					l.pos += 2
					break
				}
				l.pos++
			}
		default:
			goto token
		}
	}
	return idlTok{kind: 0, line: l.line}, nil
token:
	c := l.src[l.pos]
	start := l.pos
	switch {
	case isIdentStart(c):
		for l.pos < len(l.src) && (isIdentStart(l.src[l.pos]) || isDigit(l.src[l.pos])) {
			l.pos++
		}
		return idlTok{'i', string(l.src[start:l.pos]), l.line}, nil
	case isDigit(c) || ((c == '-' || c == '+' || c == '.') && l.pos+1 < len(l.src) && (isDigit(l.src[l.pos+1]) || l.src[l.pos+1] == '.')):
		l.pos++
		for l.pos < len(l.src) {
			d := l.src[l.pos]
			if isDigit(d) || isIdentStart(d) || d == '.' || ((d == '-' || d == '+') && (l.src[l.pos-1] == 'e' || l.src[l.pos-1] == 'E') && !strings.HasPrefix(strings.ToLower(string(l.src[start:l.pos])), "0x")) {
				l.pos++
				continue
			}
			break
		}
		return idlTok{'n', string(l.src[start:l.pos]), l.line}, nil
	case c == '"':
		l.pos++
		var sb strings.Builder
		for {
			if l.pos >= len(l.src) || l.src[l.pos] == '\n' {
				return idlTok{}, l.errf(l.line, "unterminated string")
			}
			d := l.src[l.pos]
			if d == '"' {
				l.pos++
				break
			}
			if d == '\\' && l.pos+1 < len(l.src) {
				l.pos++
				switch e := l.src[l.pos]; e {
				case 'n':
					sb.WriteByte('\n')
				case 't':
					sb.WriteByte('\t')
				case 'r':
					sb.WriteByte('\r')
				case '0':
					sb.WriteByte(0)
				default:
					sb.WriteByte(e)
				}
				l.pos++
				continue
			}
			sb.WriteByte(d)
			l.pos++
		}
		return idlTok{'s', sb.String(), l.line}, nil
	case c == '#':
		l.pos++
		for l.pos < len(l.src) && isIdentStart(l.src[l.pos]) {
			l.pos++
		}
		return idlTok{'p', string(l.src[start:l.pos]), l.line}, nil
	case c == ':' && l.pos+1 < len(l.src) && l.src[l.pos+1] == ':':
		l.pos += 2
		return idlTok{'p', "::", l.line}, nil
	}
	l.pos++
	return idlTok{'p', string(c), l.line}, nil
}

type idlParser struct {
	lex    *idlLexer
	tok    idlTok
	schema *Schema
	mod    *Module
	// unresolved named types, fixed up at the end of the file set
	fix []*idlFix
	// defaults that name an identifier, resolved late
	defs []*idlDef
}

type idlFix struct {
	t         *Type
	mod, name string // mod == "" : current module
	cur       string
	file      string
	line      int
}

type idlDef struct {
	m    *Member
	c    *ConstDef
	tok  idlTok
	cur  string
	file string
}

func (p *idlParser) advance() error {
	t, err := p.lex.next()
	if err != nil {
		return err
	}
	p.tok = t
	return nil
}

func (p *idlParser) errf(format string, a ...any) error {
	return p.lex.errf(p.tok.line, format, a...)
}

func (p *idlParser) isP(s string) bool { return p.tok.kind == 'p' && p.tok.text == s }
func (p *idlParser) isI(s string) bool { return p.tok.kind == 'i' && p.tok.text == s }

func (p *idlParser) expectP(s string) error {
	if !p.isP(s) {
		return p.errf("expected %q, found %q", s, p.tok.text)
	}
	return p.advance()
}

func (p *idlParser) ident() (string, error) {
	if p.tok.kind != 'i' {
		return "", p.errf("expected identifier, found %q", p.tok.text)
	}
	s := p.tok.text
	return s, p.advance()
}

// LoadIDL reads the given .tars files (and, recursively, their includes)
// into one schema.  Each file is read once.
func LoadIDL(files ...string) (*Schema, error) {
	s := &Schema{}
	seen := map[string]bool{}
	var fixes []*idlFix
	var defs []*idlDef
	var load func(path string) error
	load = func(path string) error {
		abs, err := filepath.Abs(path)
		if err != nil {
			return err
		}
		if seen[abs] {
			return nil
		}
		seen[abs] = true
		src, err := os.ReadFile(abs)
		if err != nil {
			return err
		}
		p := &idlParser{lex: &idlLexer{src: src, line: 1, file: abs}, schema: s}
		incs, err := p.parseFile()
		if err != nil {
			return err
		}
		fixes = append(fixes, p.fix...)
		defs = append(defs, p.defs...)
		for _, inc := range incs {
			if err := load(filepath.Join(filepath.Dir(abs), inc)); err != nil {
				return err
			}
		}
		return nil
	}
	for _, f := range files {
		if err := load(f); err != nil {
			return nil, err
		}
	}
	if err := resolveIDL(s, fixes, defs); err != nil {
		return nil, err
	}
	return s, nil
}

// LoadIDLDir reads every *.tars file of a directory (sorted by name).
func LoadIDLDir(dir string) (*Schema, error) {
	files, err := filepath.Glob(filepath.Join(dir, "*.tars"))
	if err != nil {
		return nil, err
	}
	if len(files) == 0 {
		return nil, fmt.Errorf("no .tars files in %s", dir)
	}
	return LoadIDL(files...)
}

// ParseIDL reads IDL text (no includes are followed).
func ParseIDL(name, src string) (*Schema, error) {
	s := &Schema{}
	p := &idlParser{lex: &idlLexer{src: []byte(src), line: 1, file: name}, schema: s}
	if _, err := p.parseFile(); err != nil {
		return nil, err
	}
	if err := resolveIDL(s, p.fix, p.defs); err != nil {
		return nil, err
	}
	return s, nil
}

func (p *idlParser) parseFile() (includes []string, err error) {
	if err = p.advance(); err != nil {
		return
	}
	for p.tok.kind != 0 {
		switch {
		case p.isP("#include"):
			if err = p.advance(); err != nil {
				return
			}
			if p.tok.kind != 's' {
				return nil, p.errf("#include needs a quoted file name")
			}
			includes = append(includes, p.tok.text)
			if err = p.advance(); err != nil {
				return
			}
		case p.isI("module"):
			if err = p.parseModule(); err != nil {
				return
			}
		case p.isP(";"):
			if err = p.advance(); err != nil {
				return
			}
		default:
			return nil, p.errf("expected module or #include, found %q", p.tok.text)
		}
	}
	return
}

func (p *idlParser) parseModule() error {
	if err := p.advance(); err != nil {
		return err
	}
	name, err := p.ident()
	if err != nil {
		return err
	}
	m := p.schema.Module(name)
	if m == nil {
		m = &Module{Name: name, File: p.lex.file}
		p.schema.Modules = append(p.schema.Modules, m)
	}
	p.mod = m
	if err := p.expectP("{"); err != nil {
		return err
	}
	for !p.isP("}") {
		switch {
		case p.tok.kind == 0:
			return p.errf("module %s not closed", name)
		case p.isI("struct"):
			err = p.parseStruct()
		case p.isI("enum"):
			err = p.parseEnum()
		case p.isI("const"):
			err = p.parseConst()
		case p.isI("interface"):
			err = p.parseInterface()
		case p.isI("key"):
			err = p.skipUntilSemicolon()
		case p.isP(";"):
			err = p.advance()
		default:
			return p.errf("unexpected %q in module %s", p.tok.text, name)
		}
		if err != nil {
			return err
		}
	}
	if err := p.advance(); err != nil {
		return err
	}
	if p.isP(";") {
		return p.advance()
	}
	return nil
}

func (p *idlParser) skipUntilSemicolon() error {
	for !p.isP(";") {
		if p.tok.kind == 0 {
			return p.errf("unexpected end of file")
		}
		if err := p.advance(); err != nil {
			return err
		}
	}
	return p.advance()
}

func (p *idlParser) parseInterface() error {
	if err := p.advance(); err != nil {
		return err
	}
	name, err := p.ident()
	if err != nil {
		return err
	}
	it := &InterfaceDef{Name: name}
	if err := p.expectP("{"); err != nil {
		return err
	}
	// loosely: an identifier directly followed by "(" is a function name
	depth := 1
	prev := idlTok{}
	for depth > 0 {
		if p.tok.kind == 0 {
			return p.errf("interface %s not closed", name)
		}
		if p.isP("{") {
			depth++
		} else if p.isP("}") {
			depth--
		} else if p.isP("(") && prev.kind == 'i' {
			it.Funcs = append(it.Funcs, prev.text)
		}
		prev = p.tok
		if err := p.advance(); err != nil {
			return err
		}
	}
	p.mod.Interfaces = append(p.mod.Interfaces, it)
	if p.isP(";") {
		return p.advance()
	}
	return nil
}

func (p *idlParser) parseEnum() error {
	if err := p.advance(); err != nil {
		return err
	}
	name, err := p.ident()
	if err != nil {
		return err
	}
	e := &EnumDef{Module: p.mod.Name, Name: name}
	if err := p.expectP("{"); err != nil {
		return err
	}
	next := int64(0)
	for !p.isP("}") {
		if p.tok.kind == 0 {
			return p.errf("enum %s not closed", name)
		}
		in, err := p.ident()
		if err != nil {
			return err
		}
		if p.isP("=") {
			if err := p.advance(); err != nil {
				return err
			}
			if p.tok.kind != 'n' {
				return p.errf("enum value must be a number, found %q", p.tok.text)
			}
			v, err := parseIDLInt(p.tok.text)
			if err != nil {
				return p.errf("%v", err)
			}
			next = v
			if err := p.advance(); err != nil {
				return err
			}
		}
		if next < math.MinInt32 || next > math.MaxInt32 {
			return p.errf("enum value %d out of range", next)
		}
		e.Items = append(e.Items, EnumItem{Name: in, Value: int32(next)})
		next++
		if p.isP(",") {
			if err := p.advance(); err != nil {
				return err
			}
		} else if !p.isP("}") {
			return p.errf("expected , or } in enum, found %q", p.tok.text)
		}
	}
	if err := p.advance(); err != nil {
		return err
	}
	p.mod.Enums = append(p.mod.Enums, e)
	if p.isP(";") {
		return p.advance()
	}
	return nil
}

func parseIDLInt(s string) (int64, error) {
	v, err := strconv.ParseInt(s, 0, 64)
	if err != nil {
		// decimal numbers with leading zeros are decimal in IDL
		if v2, err2 := strconv.ParseInt(s, 10, 64); err2 == nil {
			return v2, nil
		}
		return 0, fmt.Errorf("bad integer %q", s)
	}
	return v, nil
}

func (p *idlParser) parseType() (*Type, error) {
	if p.tok.kind != 'i' {
		return nil, p.errf("expected a type, found %q", p.tok.text)
	}
	name := p.tok.text
	line := p.tok.line
	if err := p.advance(); err != nil {
		return nil, err
	}
	switch name {
	case "bool":
		return TBool, nil
	case "byte":
		return TInt8, nil
	case "short":
		return TInt16, nil
	case "int":
		return TInt32, nil
	case "long":
		return TInt64, nil
	case "float":
		return TFloat, nil
	case "double":
		return TDouble, nil
	case "string":
		return TString, nil
	case "unsigned":
		u, err := p.ident()
		if err != nil {
			return nil, err
		}
		switch u {
		case "byte":
			return TUint8, nil
		case "short":
			return TUint16, nil
		case "int":
			return TUint32, nil
		}
		return nil, p.errf("unsigned %s is not a type", u)
	case "vector":
		if err := p.expectP("<"); err != nil {
			return nil, err
		}
		e, err := p.parseType()
		if err != nil {
			return nil, err
		}
		if err := p.expectP(">"); err != nil {
			return nil, err
		}
		return VectorOf(e), nil
	case "map":
		if err := p.expectP("<"); err != nil {
			return nil, err
		}
		k, err := p.parseType()
		if err != nil {
			return nil, err
		}
		if err := p.expectP(","); err != nil {
			return nil, err
		}
		v, err := p.parseType()
		if err != nil {
			return nil, err
		}
		if err := p.expectP(">"); err != nil {
			return nil, err
		}
		return MapOf(k, v), nil
	}
	// named type, possibly module-qualified; resolved when all files are read
	t := &Type{Kind: KStruct}
	fx := &idlFix{t: t, name: name, cur: p.mod.Name, file: p.lex.file, line: line}
	if p.isP("::") {
		if err := p.advance(); err != nil {
			return nil, err
		}
		n2, err := p.ident()
		if err != nil {
			return nil, err
		}
		fx.mod, fx.name = name, n2
	}
	p.fix = append(p.fix, fx)
	return t, nil
}

func (p *idlParser) parseConst() error {
	if err := p.advance(); err != nil {
		return err
	}
	t, err := p.parseType()
	if err != nil {
		return err
	}
	name, err := p.ident()
	if err != nil {
		return err
	}
	if err := p.expectP("="); err != nil {
		return err
	}
	c := &ConstDef{Name: name, Type: t}
	p.defs = append(p.defs, &idlDef{c: c, tok: p.tok, cur: p.mod.Name, file: p.lex.file})
	if err := p.advance(); err != nil {
		return err
	}
	p.mod.Consts = append(p.mod.Consts, c)
	return p.expectP(";")
}

func (p *idlParser) parseStruct() error {
	if err := p.advance(); err != nil {
		return err
	}
	name, err := p.ident()
	if err != nil {
		return err
	}
	st := &StructDef{Module: p.mod.Name, Name: name}
	if err := p.expectP("{"); err != nil {
		return err
	}
	for !p.isP("}") {
		if p.tok.kind == 0 {
			return p.errf("struct %s not closed", name)
		}
		if p.tok.kind != 'n' {
			return p.errf("expected member tag, found %q", p.tok.text)
		}
		tag, err := parseIDLInt(p.tok.text)
		if err != nil || tag < 0 || tag > 255 {
			return p.errf("bad tag %q", p.tok.text)
		}
		if err := p.advance(); err != nil {
			return err
		}
		m := &Member{Tag: uint8(tag)}
		switch {
		case p.isI("require"):
			m.Require = true
		case p.isI("optional"):
		default:
			return p.errf("expected require or optional, found %q", p.tok.text)
		}
		if err := p.advance(); err != nil {
			return err
		}
		if m.Type, err = p.parseType(); err != nil {
			return err
		}
		if m.Name, err = p.ident(); err != nil {
			return err
		}
		if p.isP("[") {
			if err := p.advance(); err != nil {
				return err
			}
			n, err := parseIDLInt(p.tok.text)
			if p.tok.kind != 'n' || err != nil || n < 0 {
				return p.errf("bad array size %q", p.tok.text)
			}
			if err := p.advance(); err != nil {
				return err
			}
			if err := p.expectP("]"); err != nil {
				return err
			}
			m.Type = ArrayOf(m.Type, int(n))
		}
		if p.isP("=") {
			if err := p.advance(); err != nil {
				return err
			}
			p.defs = append(p.defs, &idlDef{m: m, tok: p.tok, cur: p.mod.Name, file: p.lex.file})
			if err := p.advance(); err != nil {
				return err
			}
			// qualified identifier default: mod::NAME
			for p.isP("::") {
				if err := p.advance(); err != nil {
					return err
				}
				d := p.defs[len(p.defs)-1]
				d.tok.text += "::" + p.tok.text
				if err := p.advance(); err != nil {
					return err
				}
			}
		}
		if err := p.expectP(";"); err != nil {
			return err
		}
		if _, dup := st.MemberByTag(m.Tag); dup != nil {
			return p.errf("tag %d used twice in %s", m.Tag, name)
		}
		st.Members = append(st.Members, m)
	}
	if err := p.advance(); err != nil {
		return err
	}
	st.SortMembers()
	p.mod.Structs = append(p.mod.Structs, st)
	if p.isP(";") {
		return p.advance()
	}
	return nil
}

func resolveIDL(s *Schema, fixes []*idlFix, defs []*idlDef) error {
	for _, fx := range fixes {
		modName := fx.mod
		if modName == "" {
			modName = fx.cur
		}
		m := s.Module(modName)
		if m == nil {
			return fmt.Errorf("%s:%d: unknown module %s", fx.file, fx.line, modName)
		}
		if st := m.Struct(fx.name); st != nil {
			fx.t.Kind, fx.t.Struct = KStruct, st
		} else if e := m.Enum(fx.name); e != nil {
			fx.t.Kind, fx.t.Enum = KEnum, e
		} else {
			return fmt.Errorf("%s:%d: unknown type %s::%s", fx.file, fx.line, modName, fx.name)
		}
	}
	// constants first (members may name them)
	for pass := 0; pass < 2; pass++ {
		for _, d := range defs {
			if (pass == 0) != (d.c != nil) {
				continue
			}
			var t *Type
			if d.c != nil {
				t = d.c.Type
			} else {
				t = d.m.Type
			}
			v, err := literalValue(s, d.cur, t, d.tok)
			if err != nil {
				return fmt.Errorf("%s:%d: %v", d.file, d.tok.line, err)
			}
			if d.c != nil {
				d.c.Value = v
			} else {
				d.m.Default = v
			}
		}
	}
	return nil
}

func lookupIdent(s *Schema, cur, name string) (int64, bool) {
	modName := cur
	if i := strings.Index(name, "::"); i >= 0 {
		modName, name = name[:i], name[i+2:]
	}
	m := s.Module(modName)
	if m == nil {
		return 0, false
	}
	for _, e := range m.Enums {
		for _, it := range e.Items {
			if it.Name == name {
				return int64(it.Value), true
			}
		}
	}
	if c := m.Const(name); c != nil && c.Value != nil && c.Type.Kind.IsInteger() {
		return c.Value.Int, true
	}
	return 0, false
}

func literalValue(s *Schema, cur string, t *Type, tok idlTok) (*Value, error) {
	switch {
	case t.Kind == KBool:
		switch {
		case tok.kind == 'i' && tok.text == "true":
			return VBool(true), nil
		case tok.kind == 'i' && tok.text == "false":
			return VBool(false), nil
		case tok.kind == 'n':
			v, err := parseIDLInt(tok.text)
			if err != nil {
				return nil, err
			}
			return VBool(v != 0), nil
		}
	case t.Kind.IsInteger():
		var v int64
		switch tok.kind {
		case 'n':
			x, err := parseIDLInt(tok.text)
			if err != nil {
				return nil, err
			}
			v = x
		case 'i':
			x, ok := lookupIdent(s, cur, tok.text)
			if !ok {
				return nil, fmt.Errorf("unknown identifier %s in default", tok.text)
			}
			v = x
		default:
			return nil, fmt.Errorf("bad default %q for %s", tok.text, t)
		}
		lo, hi := t.Kind.IntRange()
		if v < lo || v > hi {
			return nil, fmt.Errorf("default %d out of range for %s", v, t)
		}
		return VInt(t.Kind, v), nil
	case t.Kind == KFloat || t.Kind == KDouble:
		if tok.kind == 'n' {
			f, err := strconv.ParseFloat(strings.TrimRight(tok.text, "fF"), 64)
			if err != nil {
				return nil, err
			}
			if t.Kind == KFloat {
				return VFloatOf(float32(f)), nil
			}
			return VDoubleOf(f), nil
		}
	case t.Kind == KString:
		if tok.kind == 's' {
			return VString(tok.text), nil
		}
	}
	return nil, fmt.Errorf("bad default %q for %s", tok.text, t)
}
