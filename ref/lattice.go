package ref

import (
	"sort"
)

// Value lattices (DESIGN.md §3).  Every generator is deterministic: same
// arguments, same sequence.

// Level selects the size of a lattice.
type Level int

const (
	Small Level = iota // width boundaries and a few typical values
	Full               // the complete lattice of DESIGN.md §3
)

var bytePatterns = [5]byte{0x00, 0x01, 0x7f, 0x80, 0xff}

func sortDedup(a []int64) []int64 {
	sort.Slice(a, func(i, j int) bool { return a[i] < a[j] })
	o := a[:0]
	for i, x := range a {
		if i == 0 || x != a[i-1] {
			o = append(o, x)
		}
	}
	return o
}

// kindWidth is the number of payload bytes of the kind's natural width.
func kindWidth(k Kind) int {
	switch k {
	case KBool, KInt8, KUint8:
		return 1
	case KInt16, KUint16:
		return 2
	case KInt32, KUint32, KEnum:
		return 4
	}
	return 8
}

// IntLattice returns, ascending and without repeats, the lattice of an
// integer-like kind:
//
//	Full:  ±2^k+d for k ≤ 63, |d| ≤ 2, and every value whose bytes (at the
//	       kind's width, in the kind's signedness) are drawn from
//	       {00,01,7f,80,ff}; clipped to the kind's range.
//	Small: 0, ±1, and ±2^k+d for the width boundaries k ∈ {7,8,15,16,31,32,63},
//	       |d| ≤ 1; clipped to the kind's range.
func IntLattice(k Kind, lv Level) []int64 {
	lo, hi := k.IntRange()
	var out []int64
	add := func(x int64) {
		if x >= lo && x <= hi {
			out = append(out, x)
		}
	}
	add(0)
	if lv == Small {
		add(1)
		add(-1)
		for _, e := range []uint{7, 8, 15, 16, 31, 32, 63} {
			for d := int64(-1); d <= 1; d++ {
				p := int64(1) << e // e == 63: MinInt64
				if e == 63 {
					if d >= 0 {
						add(p + d)        // MinInt64, MinInt64+1
						add(-(p + 1) - d) // MaxInt64, MaxInt64-1
					}
					continue
				}
				add(p + d)
				add(-p + d)
			}
		}
		return sortDedup(out)
	}
	for e := uint(0); e <= 63; e++ {
		for d := int64(-2); d <= 2; d++ {
			if e == 63 {
				// 2^63 itself is not representable: use the wrapped neighbours
				if d >= 0 {
					add(int64(-1<<63) + d)
				} else {
					add(int64(1<<63-1) + d + 1)
				}
				continue
			}
			p := int64(1) << e
			add(p + d)
			add(-p + d)
		}
	}
	w := kindWidth(k)
	n := 1
	for i := 0; i < w; i++ {
		n *= 5
	}
	signed := lo < 0
	for c := 0; c < n; c++ {
		var u uint64
		x := c
		for i := 0; i < w; i++ {
			u = u<<8 | uint64(bytePatterns[x%5])
			x /= 5
		}
		var v int64
		if signed {
			sh := uint(64 - 8*w)
			v = int64(u<<sh) >> sh
		} else {
			v = int64(u)
		}
		add(v)
	}
	return sortDedup(out)
}

// AllInts enumerates every value of an 8- or 16-bit kind (or bool).
func AllInts(k Kind) []int64 {
	lo, hi := k.IntRange()
	if hi > 65535 {
		panic("ref: AllInts on a wide kind")
	}
	out := make([]int64, 0, hi-lo+1)
	for v := lo; v <= hi; v++ {
		out = append(out, v)
	}
	return out
}

var lowHalves32 = [3]uint32{0x0000, 0x0001, 0xffff}
var lowParts64 = [3]uint64{0, 1, 0xffffffffffff}

// Float32Lattice: Full = all 2^16 top halves × three low halves (±0,
// subnormals, ±Inf, quiet and signalling NaN payloads, every exponent);
// Small = a list of special patterns.
func Float32Lattice(lv Level) []uint32 {
	if lv == Small {
		return []uint32{0x00000000, 0x80000000, 0x00000001, 0x807fffff, 0x00800000, 0x3f800000, 0xbf800000,
			0x3eaaaaab, 0x7f7fffff, 0xff7fffff, 0x7f800000, 0xff800000, 0x7fc00000, 0xffc00000, 0x7f800001,
			0x7fa00000, 0xffbfffff, 0x7fffffff, 0x01020304, 0x4b800000, 0xcf000000}
	}
	out := make([]uint32, 0, 3<<16)
	for top := uint32(0); top < 1<<16; top++ {
		for _, l := range lowHalves32 {
			out = append(out, top<<16|l)
		}
	}
	return out
}

// Float64Lattice: Full = all 2^16 top 16-bit patterns × three low parts.
func Float64Lattice(lv Level) []uint64 {
	if lv == Small {
		return []uint64{0, 1 << 63, 1, 0x800fffffffffffff, 0x0010000000000000, 0x3ff0000000000000, 0xbff0000000000000,
			0x3fd5555555555555, 0x7fefffffffffffff, 0xffefffffffffffff, 0x7ff0000000000000, 0xfff0000000000000,
			0x7ff8000000000000, 0xfff8000000000000, 0x7ff0000000000001, 0x7ff4000000000000, 0xfff7ffffffffffff,
			0x7fffffffffffffff, 0x0102030405060708, 0x47efffffe0000000, 0x36a0000000000000, 0x3810000000000000}
	}
	out := make([]uint64, 0, 3<<16)
	for top := uint64(0); top < 1<<16; top++ {
		for _, l := range lowParts64 {
			out = append(out, top<<48|l)
		}
	}
	return out
}

// StringLengths: Full = 0..600, 65535, 65536, 70000; Small = the STRING1 /
// STRING4 boundary and a few short ones.
func StringLengths(lv Level) []int {
	if lv == Small {
		return []int{0, 1, 2, 254, 255, 256, 257}
	}
	out := make([]int, 0, 604)
	for i := 0; i <= 600; i++ {
		out = append(out, i)
	}
	return append(out, 65535, 65536, 70000)
}

// NumFills is the number of fill patterns of FillBytes.
const NumFills = 3

// FillBytes returns n bytes of fill pattern f: 0 = all 0x00, 1 = all 0xff,
// 2 = a running pattern that visits every byte value (not valid UTF-8).
func FillBytes(n, f int) []byte {
	b := make([]byte, n)
	switch f {
	case 1:
		for i := range b {
			b[i] = 0xff
		}
	case 2:
		for i := range b {
			b[i] = byte(i*7 + 0x61)
		}
	}
	return b
}

// ContainerSizes: Full = 0, 1, 2, 255, 256; Small = 0, 1, 2.
func ContainerSizes(lv Level) []int {
	if lv == Small {
		return []int{0, 1, 2}
	}
	return []int{0, 1, 2, 255, 256}
}

// Lattice returns the value lattice of any schema type.
//
//	integers, floats   IntLattice / Float*Lattice at the level
//	enum               the declared items plus the int32 Small lattice
//	string, bytes      StringLengths × fills (Small: fills 0 and 2 only beyond length 2)
//	vector, map        ContainerSizes; element i is the i-th value of the
//	                   element's Small lattice (cyclic); map keys distinct
//	array              all-zero, and filled from the element lattice
//	struct             the two baselines (all-default, all-non-default)
func Lattice(t *Type, lv Level) []*Value {
	var out []*Value
	switch {
	case t.Kind == KEnum:
		seen := map[int64]bool{}
		for _, it := range t.Enum.Items {
			if !seen[int64(it.Value)] {
				seen[int64(it.Value)] = true
				out = append(out, VInt(KEnum, int64(it.Value)))
			}
		}
		for _, x := range IntLattice(KInt32, Small) {
			if !seen[x] {
				seen[x] = true
				out = append(out, VInt(KEnum, x))
			}
		}
	case t.Kind.IsInteger():
		for _, x := range IntLattice(t.Kind, lv) {
			out = append(out, VInt(t.Kind, x))
		}
	case t.Kind == KFloat:
		for _, b := range Float32Lattice(lv) {
			out = append(out, VFloat(b))
		}
	case t.Kind == KDouble:
		for _, b := range Float64Lattice(lv) {
			out = append(out, VDouble(b))
		}
	case t.Kind == KString:
		for _, n := range StringLengths(lv) {
			for f := 0; f < NumFills; f++ {
				if n == 0 && f > 0 {
					continue
				}
				if lv == Small && f == 1 && n > 2 {
					continue
				}
				out = append(out, VString(string(FillBytes(n, f))))
			}
		}
	case t.Kind == KVector && t.IsBytes():
		for _, n := range StringLengths(lv) {
			for f := 0; f < NumFills; f++ {
				if n == 0 && f > 0 {
					continue
				}
				if lv == Small && f == 1 && n > 2 {
					continue
				}
				out = append(out, VBytes(FillBytes(n, f)))
			}
		}
	case t.Kind == KVector:
		el := Lattice(t.Elem, Small)
		for _, n := range ContainerSizes(lv) {
			v := &Value{Kind: KVector}
			for i := 0; i < n; i++ {
				v.Elems = append(v.Elems, el[(i+1)%len(el)].Clone())
			}
			out = append(out, v)
		}
	case t.Kind == KArray:
		out = append(out, Zero(t))
		el := Lattice(t.Elem, Small)
		v := Zero(t)
		for i := 0; i < t.N; i++ {
			if t.IsBytes() {
				v.Bytes[i] = byte(i*7 + 0x61)
			} else {
				v.Elems[i] = el[(i+1)%len(el)].Clone()
			}
		}
		if t.N > 0 {
			out = append(out, v)
		}
	case t.Kind == KMap:
		kl := distinctKeys(t.Key, Lattice(t.Key, Small))
		vl := Lattice(t.Val, Small)
		for _, n := range ContainerSizes(lv) {
			if n > len(kl) {
				n = len(kl)
			}
			v := &Value{Kind: KMap}
			for i := 0; i < n; i++ {
				v.Keys = append(v.Keys, kl[(i+1)%len(kl)].Clone())
				v.Vals = append(v.Vals, vl[(i+1)%len(vl)].Clone())
			}
			out = append(out, v)
		}
	case t.Kind == KStruct:
		out = append(out, Zero(t), NonDefault(t))
		// every member with a declared default at the zero value of its type instead (0 where the IDL says
		// "= 3"): the value a writer that elides "zero" members and a reader that presets defaults disagree on
		if z := typeZero(t); KeyString(t, z) != KeyString(t, out[0]) {
			out = append(out, z)
		}
	}
	return out
}

// typeZero: a struct value whose members are the zero values of their types, declared defaults ignored.
func typeZero(t *Type) *Value {
	v := Zero(t)
	for i, m := range t.Struct.Members {
		if m.Default != nil {
			v.Elems[i] = Zero(m.Type)
		}
	}
	return v
}

func distinctKeys(t *Type, vs []*Value) []*Value {
	seen := map[string]bool{}
	var out []*Value
	for _, v := range vs {
		k := KeyString(t, v)
		if !seen[k] {
			seen[k] = true
			out = append(out, v)
		}
	}
	return out
}

// NonDefault returns a typical value of t in which every part differs from
// the zero value / IDL default (the "all-non-default" baseline).
func NonDefault(t *Type) *Value { return nonDefault(t, nil, 0) }

func nonDefault(t *Type, def *Value, salt int) *Value {
	switch {
	case t.Kind == KBool:
		if def != nil && def.Int != 0 {
			return VBool(false)
		}
		return VBool(true)
	case t.Kind == KEnum:
		for _, it := range t.Enum.Items {
			if it.Value != 0 && (def == nil || int64(it.Value) != def.Int) {
				return VInt(KEnum, int64(it.Value))
			}
		}
		return VInt(KEnum, 1)
	case t.Kind.IsInteger():
		x := int64(1 + salt%100)
		if def != nil && def.Int == x {
			x++
		}
		return VInt(t.Kind, x)
	case t.Kind == KFloat:
		return VFloat(0x3fc00000) // 1.5
	case t.Kind == KDouble:
		return VDouble(0x4004000000000000) // 2.5
	case t.Kind == KString:
		s := "s" + string(rune('a'+salt%26))
		if def != nil && def.Str == s {
			s += "x"
		}
		return VString(s)
	case t.Kind == KVector || t.Kind == KArray:
		n := 2
		if t.Kind == KArray {
			n = t.N
		}
		if t.IsBytes() {
			b := make([]byte, n)
			for i := range b {
				b[i] = byte(0x81 + i + salt)
			}
			return &Value{Kind: t.Kind, Bytes: b}
		}
		v := &Value{Kind: t.Kind}
		for i := 0; i < n; i++ {
			v.Elems = append(v.Elems, nonDefault(t.Elem, nil, salt+i))
		}
		return v
	case t.Kind == KMap:
		v := &Value{Kind: KMap}
		for i := 0; i < 2; i++ {
			k := nonDefault(t.Key, nil, salt+i)
			if i == 1 && KeyString(t.Key, k) == KeyString(t.Key, v.Keys[0]) {
				break // key type too small for two distinct typical keys
			}
			v.Keys = append(v.Keys, k)
			v.Vals = append(v.Vals, nonDefault(t.Val, nil, salt+i))
		}
		return v
	case t.Kind == KStruct:
		v := &Value{Kind: KStruct}
		for i, m := range t.Struct.Members {
			v.Elems = append(v.Elems, nonDefault(m.Type, m.Default, salt+i))
		}
		return v
	}
	return Zero(t)
}

// Baselines returns the two baselines of a struct: every member at its
// default, and every member away from it.
func Baselines(st *StructDef) (allDefault, allNonDefault *Value) {
	t := StructOf(st)
	return Zero(t), NonDefault(t)
}

// Deviations enumerates the deviation-bounded product around base: every
// value obtained by replacing at most k members of base by values of their
// lattice lat(member) (values equal to the base member are skipped).  base
// itself comes first.  visit receives a fresh value (it may keep it) and the
// indexes of the deviating members; returning false stops the enumeration.
// The number of values visited is returned.
func Deviations(st *StructDef, base *Value, k int, lat func(*Member) []*Value, visit func(v *Value, dev []int) bool) int {
	n := len(st.Members)
	lats := make([][]*Value, n)
	for i, m := range st.Members {
		for _, x := range lat(m) {
			if !Equal(m.Type, x, base.Elems[i]) {
				lats[i] = append(lats[i], x)
			}
		}
	}
	count := 0
	stop := false
	cur := base.Clone()
	var dev []int
	var rec func(from, left int)
	rec = func(from, left int) {
		if stop {
			return
		}
		count++
		if !visit(cur.Clone(), append([]int{}, dev...)) {
			stop = true
			return
		}
		if left == 0 {
			return
		}
		for i := from; i < n && !stop; i++ {
			saved := cur.Elems[i]
			dev = append(dev, i)
			for _, x := range lats[i] {
				cur.Elems[i] = x
				rec(i+1, left-1)
				if stop {
					break
				}
			}
			dev = dev[:len(dev)-1]
			cur.Elems[i] = saved
		}
	}
	rec(0, k)
	return count
}
