package ref

import (
	"bytes"
	"encoding/hex"
	"math"
	"os"
	"reflect"
	"strings"
	"testing"
)

func hx(s string) []byte {
	b, err := hex.DecodeString(strings.ReplaceAll(s, " ", ""))
	if err != nil {
		panic(err)
	}
	return b
}

// Byte vectors computed by hand from the protocol rules.
func TestHandVectors(t *testing.T) {
	long := bytes.Repeat([]byte{'x'}, 256)
	cases := []struct {
		name string
		n    *Node
		want []byte
	}{
		{"zero tag0", NInt(0, 0), hx("0c")},
		{"zero tag15", NInt(15, 0), hx("fc0f")},
		{"byte 1 tag1", NInt(1, 1), hx("1001")},
		{"byte -1 tag0", NInt(0, -1), hx("00ff")},
		{"byte -128 tag14", NInt(14, -128), hx("e080")},
		{"short 128 tag2", NInt(2, 128), hx("210080")},
		{"short -129", NInt(0, -129), hx("01ff7f")},
		{"int 32768 tag15", NInt(15, 32768), hx("f20f00008000")},
		{"int -32769", NInt(3, -32769), hx("32ffff7fff")},
		{"long 2^31 tag255", NInt(255, 1<<31), hx("f3ff0000000080000000")},
		{"long min", NInt(0, math.MinInt64), hx("038000000000000000")},
		{"float 1.0 tag3", NFloat(3, math.Float32bits(1)), hx("343f800000")},
		{"double 1.0 tag4", NDouble(4, math.Float64bits(1)), hx("453ff0000000000000")},
		{"string ab tag5", NStr(5, []byte("ab")), hx("56026162")},
		{"string empty tag16", NStr(16, nil), hx("f61000")},
		{"string 256", NStr(0, long), append(hx("0700000100"), long...)},
		{"simplelist", NBytes(7, []byte{1, 2}), hx("7d 00 0002 0102")},
		{"simplelist empty", NBytes(7, nil), hx("7d000c")},
		{"list", NList(1, NInt(0, 1), NInt(0, 300)), hx("1900020001 01012c")},
		{"map", NMap(9, NStr(0, []byte("k")), NStr(1, []byte("v"))), hx("980001 06016b 160176")},
		{"struct", NStruct(1, NInt(0, 1)), hx("1a 0001 0b")},
		{"wide zero", NIntAs(2, 0, WLong), hx("230000000000000000")},
	}
	for _, c := range cases {
		got := c.n.Bytes()
		if !bytes.Equal(got, c.want) {
			t.Errorf("%s: got %x want %x", c.name, got, c.want)
		}
		n, sz, err := ParseField(got)
		if err != nil || sz != len(got) {
			t.Errorf("%s: parse back: %v size %d", c.name, err, sz)
			continue
		}
		if again := n.Bytes(); !bytes.Equal(again, got) {
			t.Errorf("%s: re-encode %x != %x", c.name, again, got)
		}
	}
}

func reqSchema() *StructDef {
	ss := MapOf(TString, TString)
	return NewStruct("requestf", "RequestPacket",
		Req(1, "iVersion", TInt16), Req(2, "cPacketType", TInt8), Req(3, "iMessageType", TInt32),
		Req(4, "iRequestId", TInt32), Req(5, "sServantName", TString), Req(6, "sFuncName", TString),
		Req(7, "sBuffer", VectorOf(TInt8)), Req(8, "iTimeout", TInt32), Req(9, "context", ss), Req(10, "status", ss))
}

func TestRequestPacketVector(t *testing.T) {
	st := reqSchema()
	v := VStruct(VInt(KInt16, 1), VInt(KInt8, 0), VInt(KInt32, 0), VInt(KInt32, 300), VString("a.b"), VString("f"),
		VBytes([]byte{0xff}), VInt(KInt32, 3000), VMap(VString("k"), VString("v")), VMap())
	got, err := Encode(st, v)
	if err != nil {
		t.Fatal(err)
	}
	want := hx("1001 2c 3c 41012c 5603612e62 660166 7d000001ff 810bb8 98000106016b160176 a80c")
	if !bytes.Equal(got, want) {
		t.Fatalf("got  %x\nwant %x", got, want)
	}
	back, err := Decode(st, got)
	if err != nil {
		t.Fatal(err)
	}
	if d := Diff(StructOf(st), v, back); d != "" {
		t.Fatal(d)
	}
	// every proper prefix: strict decode fails (all members are required)
	for i := 0; i < len(got); i++ {
		if _, err := Decode(st, got[:i]); err == nil {
			t.Errorf("prefix %d accepted", i)
		}
	}
	// prefix cut inside the first map: the complete fields end after iTimeout
	cut := len(got) - 5
	_, n, perr, _ := DecodePrefix(st, got[:cut])
	if perr == nil || n != 23 {
		t.Errorf("DecodePrefix consumed %d, perr %v", n, perr)
	}
}

func TestStrictParser(t *testing.T) {
	bad := []struct {
		name string
		b    []byte
		code ErrCode
	}{
		{"head only", hx("00"), ErrTruncated},
		{"ext tag missing", hx("f0"), ErrTruncated},
		{"short cut", hx("0112"), ErrTruncated},
		{"int cut", hx("02000000"), ErrTruncated},
		{"long cut", hx("0300"), ErrTruncated},
		{"float cut", hx("04000000"), ErrTruncated},
		{"double cut", hx("0500000000000000"), ErrTruncated},
		{"string1 no length", hx("06"), ErrTruncated},
		{"string1 short", hx("06056162"), ErrLength},
		{"string4 length cut", hx("07000000"), ErrTruncated},
		{"string4 short", hx("070000000361"), ErrLength},
		{"string4 huge", hx("07ffffffff61"), ErrLength},
		{"list negative", hx("0900ff"), ErrNegLength},
		{"list too many", hx("0900020001"), ErrLength},
		{"list length not int", hx("09060000"), ErrLenField},
		{"list length tag 1", hx("091001"), ErrLenField},
		{"list elem tag", hx("0900011001"), ErrElemTag},
		{"map value tag", hx("0800010001 0001"), ErrElemTag},
		{"map half entry", hx("0800010001"), ErrLength},
		{"simplelist head", hx("0d01000100"), ErrSimpleHead},
		{"simplelist short", hx("0d00000501"), ErrLength},
		{"simplelist negative", hx("0d0000ff"), ErrNegLength},
		{"struct open", hx("0a0001"), ErrStructEnd},
		{"struct end tag", hx("0a1b"), ErrStructEnd},
		{"stray struct end", hx("0b"), ErrBadWire},
		{"type 14", hx("0e"), ErrBadWire},
		{"type 15", hx("1f"), ErrBadWire},
		{"dup tag", hx("0c0c"), ErrDupTag},
		{"descending", hx("1c0c"), ErrTagOrder},
		{"dup in struct", hx("0a1c1c0b"), ErrDupTag},
	}
	for _, c := range bad {
		_, err := Parse(c.b)
		if CodeOf(err) != c.code {
			t.Errorf("%s: got %v, want %s", c.name, err, c.code)
		}
	}
	good := [][]byte{hx(""), hx("0c"), hx("0c1c2c"), hx("0a0b"), hx("0a0a0b0b"), hx("090c"), hx("080c"), hx("0d000c"),
		hx("0900020c0c"), hx("0600"), hx("0700000000"), hx("0c f00f01 fc10")}
	for _, b := range good {
		if _, err := Parse(b); err != nil {
			t.Errorf("%x rejected: %v", b, err)
		}
	}
	if _, err := ParseWith(hx("1c0c"), ParseOptions{AnyOrder: true}); err != nil {
		t.Errorf("AnyOrder: %v", err)
	}
	// depth cap reported
	deep := bytes.Repeat([]byte{0x0a}, 100)
	r, err := ParseWith(deep, ParseOptions{MaxDepth: 10})
	if CodeOf(err) != ErrDepth || r.MaxDepth < 10 {
		t.Errorf("depth cap: %v reached %d", err, r.MaxDepth)
	}
	ok := append(bytes.Repeat([]byte{0x0a}, 9), bytes.Repeat([]byte{0x0b}, 9)...)
	r, err = ParseWith(ok, ParseOptions{MaxDepth: 10})
	if err != nil || r.MaxDepth != 10 {
		t.Errorf("nesting 9: %v reached %d", err, r.MaxDepth)
	}
}

func TestSchemaDecoderRules(t *testing.T) {
	st := NewStruct("m", "S",
		Req(0, "a", TInt8), Opt(1, "b", TInt32, VInt(KInt32, 7)), Opt(3, "s", TString, VString("dflt")),
		Opt(4, "f", TFloat, nil), Opt(5, "d", TDouble, nil), Opt(6, "v", VectorOf(TUint8), nil), Opt(7, "u", TUint8, nil))
	ty := StructOf(st)
	dec := func(b []byte) (*Value, error) { return Decode(st, b) }
	v, err := dec(hx("0c"))
	if err != nil {
		t.Fatal(err)
	}
	if v.Elems[1].Int != 7 || v.Elems[2].Str != "dflt" {
		t.Errorf("defaults not applied: %s", Format(ty, v))
	}
	if _, err := dec(hx("")); CodeOf(err) != ErrMissing {
		t.Errorf("missing required: %v", err)
	}
	if _, err := dec(hx("010001")); CodeOf(err) != ErrMistyped {
		t.Errorf("int8 as SHORT: %v", err)
	}
	if _, err := dec(hx("0c 130000000000000001")); CodeOf(err) != ErrMistyped {
		t.Errorf("int32 as LONG: %v", err)
	}
	if _, err := dec(hx("0c 3c")); CodeOf(err) != ErrMistyped {
		t.Errorf("string as ZeroTag: %v", err)
	}
	if _, err := dec(hx("0c 450000000000000000")); CodeOf(err) != ErrMistyped {
		t.Errorf("float as DOUBLE: %v", err)
	}
	// double from FLOAT widens numerically, ZeroTag is +0
	v, err = dec(hx("0c 543fc00000"))
	if err != nil || v.Elems[4].Bits != math.Float64bits(1.5) {
		t.Errorf("double from FLOAT: %v %v", err, v)
	}
	// unknown tag 2 is skipped whatever it is
	v, err = dec(hx("0c 2a 0a0b 16017a 0b 36026869"))
	if err != nil || v.Elems[2].Str != "hi" {
		t.Errorf("skip unknown: %v", err)
	}
	// unsigned byte vector as LIST of widened integers, and as SimpleList
	v, err = dec(hx("0c 690002 0001 0100c8"))
	if err != nil || !bytes.Equal(v.Elems[5].Bytes, []byte{1, 200}) {
		t.Errorf("uint8 LIST: %v", err)
	}
	if _, err := dec(hx("0c 690001 00c8")); CodeOf(err) != ErrRange {
		t.Errorf("uint8 element -56: %v", err)
	}
	v, err = dec(hx("0c 6d 00 0002 01c8"))
	if err != nil || !bytes.Equal(v.Elems[5].Bytes, []byte{1, 200}) {
		t.Errorf("uint8 SimpleList: %v", err)
	}
	if _, err := dec(hx("0c 710100")); CodeOf(err) != ErrRange {
		t.Errorf("uint8 256: %v", err)
	}
	// canonical encoder leaves defaults out, KeepDefaults writes them
	z := Zero(ty)
	b := MustEncode(st, z, EncodeOptions{})
	if !bytes.Equal(b, hx("0c")) {
		t.Errorf("elision: %x", b)
	}
	b = MustEncode(st, z, EncodeOptions{KeepDefaults: true})
	if !bytes.Equal(b, hx("0c 1007 360464666c74 4400000000 550000000000000000 6d000c 7c")) {
		t.Errorf("keep defaults: %x", b)
	}
	back, err := dec(b)
	if err != nil || Diff(ty, z, back) != "" {
		t.Errorf("round trip of defaults: %v %s", err, Diff(ty, z, back))
	}
}

func TestRoundTripLattices(t *testing.T) {
	inner := NewStruct("m", "In", Req(0, "x", TInt64), Opt(1, "y", TString, nil))
	e := &EnumDef{Module: "m", Name: "E", Items: []EnumItem{{"A", -5}, {"B", 0}, {"C", 9}}}
	st := NewStruct("m", "Big",
		Req(0, "b", TBool), Req(1, "i8", TInt8), Req(2, "u8", TUint8), Req(3, "i16", TInt16), Req(4, "u16", TUint16),
		Req(5, "i32", TInt32), Req(6, "u32", TUint32), Req(7, "i64", TInt64), Req(8, "f", TFloat), Req(9, "d", TDouble),
		Req(10, "s", TString), Req(14, "vb", VectorOf(TInt8)), Req(15, "vs", VectorOf(TString)), Opt(16, "m", MapOf(TInt32, StructOf(inner)), nil),
		Opt(200, "in", StructOf(inner), nil), Opt(254, "e", EnumOf(e), VInt(KEnum, 9)), Opt(255, "arr", ArrayOf(TInt16, 3), nil),
		Opt(100, "vv", VectorOf(VectorOf(TUint8)), nil), Opt(101, "ub", VectorOf(TUint8), nil))
	ty := StructOf(st)
	def, non := Baselines(st)
	total := 0
	for _, base := range []*Value{def, non} {
		for _, opt := range []EncodeOptions{{}, {KeepDefaults: true}, {BytesAsList: true, SortMaps: true}} {
			n := Deviations(st, base, 1, func(m *Member) []*Value {
				lv := Full
				if m.Type.Kind == KInt64 || m.Type.Kind == KFloat || m.Type.Kind == KDouble || m.Type.Kind == KString || m.Type.IsBytes() {
					lv = Small
				}
				return Lattice(m.Type, lv)
			}, func(v *Value, dev []int) bool {
				b, err := EncodeWith(st, v, opt)
				if err != nil {
					t.Fatalf("encode %s: %v", Format(ty, v), err)
				}
				back, err := Decode(st, b)
				if err != nil {
					t.Fatalf("decode %x: %v", b, err)
				}
				if d := Diff(ty, v, back); d != "" {
					t.Fatalf("round trip: %s", d)
				}
				// canonical re-encoding of the parsed tree is the identity
				ns, _ := Parse(b)
				if again := EncodeNodes(ns); !bytes.Equal(again, b) {
					t.Fatalf("parse/encode identity: %x != %x", again, b)
				}
				return true
			})
			total += n
		}
	}
	if total < 1000 {
		t.Errorf("only %d values", total)
	}
}

func TestLattices(t *testing.T) {
	for _, k := range []Kind{KBool, KInt8, KUint8, KInt16, KUint16, KInt32, KUint32, KInt64, KEnum} {
		lo, hi := k.IntRange()
		for _, lv := range []Level{Small, Full} {
			l := IntLattice(k, lv)
			for i, x := range l {
				if x < lo || x > hi || (i > 0 && l[i-1] >= x) {
					t.Fatalf("%s lattice broken at %d", k, i)
				}
			}
			has := func(x int64) bool {
				for _, y := range l {
					if y == x {
						return true
					}
				}
				return false
			}
			if !has(lo) || !has(hi) || !has(0) {
				t.Errorf("%s level %d misses an end point", k, lv)
			}
		}
	}
	if n := len(IntLattice(KInt64, Full)); n < 390000 {
		t.Errorf("int64 full lattice has %d values", n)
	}
	l := IntLattice(KInt64, Full)
	for _, x := range []int64{127, 128, -128, -129, 32767, 32768, -32769, 1<<31 - 1, 1 << 31, -1<<31 - 1, math.MaxInt64, math.MinInt64, 0x7f80ff01007f80ff} {
		found := false
		for _, y := range l {
			if y == x {
				found = true
			}
		}
		if !found {
			t.Errorf("int64 lattice misses %d", x)
		}
	}
	if len(Float32Lattice(Full)) != 3<<16 || len(Float64Lattice(Full)) != 3<<16 {
		t.Error("float lattice size")
	}
	if len(AllInts(KUint16)) != 65536 || len(AllInts(KBool)) != 2 {
		t.Error("AllInts")
	}
	if !reflect.DeepEqual(IntLattice(KInt32, Full), IntLattice(KInt32, Full)) {
		t.Error("not deterministic")
	}
}

func TestLocate(t *testing.T) {
	b := hx("1001 56026162 7d0000020102 98000106016b160176 fa10 0c 0b")
	fs, err := Parse(b)
	if err != nil {
		t.Fatal(err)
	}
	type exp struct {
		off  int
		wire WireType
		part Part
	}
	for _, e := range []exp{{0, WByte, PartHead}, {1, WByte, PartPayload}, {2, WString1, PartHead}, {3, WString1, PartLength},
		{4, WString1, PartPayload}, {6, WSimpleList, PartHead}, {7, WSimpleList, PartHead}, {8, WSimpleList, PartLength},
		{9, WByte, PartPayload}, {10, WSimpleList, PartPayload}, {12, WMap, PartHead}, {13, WMap, PartLength}, {14, WByte, PartPayload},
		{15, WString1, PartHead}, {17, WString1, PartPayload}, {21, WStructBegin, PartHead}, {22, WStructBegin, PartHead},
		{23, WZero, PartHead}, {24, WStructBegin, PartBody}} {
		n, p := Locate(fs, e.off)
		if n == nil || n.Type != e.wire || p != e.part {
			t.Errorf("offset %d: got %v %v, want %v %v", e.off, n, p, e.wire, e.part)
		}
	}
}

type goInner struct {
	X int64
	Y string
}
type goEnum int32
type goBig struct {
	B   bool
	I8  int8
	U8  uint8
	U32 uint32
	F   float32
	D   float64
	S   string
	Vb  []int8
	Ub  []uint8
	Vs  []string
	M   map[int32]goInner
	In  goInner
	E   goEnum
	Arr [3]int16
}

func TestGoBridge(t *testing.T) {
	inner := NewStruct("m", "In", Req(0, "x", TInt64), Opt(1, "y", TString, nil))
	e := &EnumDef{Module: "m", Name: "E", Items: []EnumItem{{"A", -5}}}
	st := NewStruct("m", "Big", Req(0, "b", TBool), Req(1, "i8", TInt8), Req(2, "u8", TUint8), Req(3, "u32", TUint32),
		Req(4, "f", TFloat), Req(5, "d", TDouble), Req(6, "s", TString), Req(7, "vb", VectorOf(TInt8)), Req(8, "ub", VectorOf(TUint8)),
		Req(9, "vs", VectorOf(TString)), Req(10, "m", MapOf(TInt32, StructOf(inner))), Req(11, "in", StructOf(inner)),
		Req(12, "e", EnumOf(e)), Req(13, "arr", ArrayOf(TInt16, 3)))
	ty := StructOf(st)
	if err := CheckGoType(ty, reflect.TypeOf(goBig{})); err != nil {
		t.Fatal(err)
	}
	v := NonDefault(ty)
	v.Elems[4] = VFloat(0x7f800001) // signalling NaN must survive
	v.Elems[5] = VDouble(0x7ff0000000000001)
	v.Elems[3] = VInt(KUint32, 4294967295)
	var g goBig
	if err := ToGo(ty, v, reflect.ValueOf(&g).Elem()); err != nil {
		t.Fatal(err)
	}
	if g.U32 != 4294967295 || math.Float32bits(g.F) != 0x7f800001 || len(g.M) != 2 || g.E == 0 {
		t.Errorf("ToGo: %+v", g)
	}
	back, err := FromGo(ty, reflect.ValueOf(&g).Elem())
	if err != nil {
		t.Fatal(err)
	}
	if d := Diff(ty, v, back); d != "" {
		t.Error(d)
	}
	if err := CheckGoType(ty, reflect.TypeOf(goInner{})); err == nil {
		t.Error("CheckGoType accepted a wrong type")
	}
}

const resDir = "/repo/tars/protocol/res"

func TestIDLRes(t *testing.T) {
	if _, err := os.Stat(resDir); err != nil {
		t.Skip("no " + resDir)
	}
	s, err := LoadIDLDir(resDir)
	if err != nil {
		t.Fatal(err)
	}
	if n := len(s.AllStructs()); n != 24 {
		t.Errorf("%d structs, want 24", n)
	}
	rp := s.Struct("requestf::RequestPacket")
	if rp == nil || len(rp.Members) != 10 || !rp.Members[6].Type.IsBytes() || rp.Members[8].Type.Kind != KMap || !rp.Members[9].Require {
		t.Fatalf("RequestPacket: %+v", rp)
	}
	if d := rp.Members[1].Default; d == nil || d.Int != 0 || rp.Members[0].Default != nil {
		t.Error("RequestPacket defaults")
	}
	li := s.Struct("logf.LogInfo")
	if _, m := li.MemberByName("bHasSufix"); m == nil || m.Default == nil || m.Default.Int != 1 || m.Type.Kind != KBool {
		t.Error("LogInfo.bHasSufix")
	}
	if _, m := li.MemberByName("sConcatStr"); m.Default.Str != "_" {
		t.Error("LogInfo.sConcatStr")
	}
	if _, m := s.Struct("authf::BasicAuthPackage").MemberByName("sHashMethod"); m.Default.Str != "sha1" || m.Require {
		t.Error("BasicAuthPackage.sHashMethod")
	}
	if _, m := s.Struct("propertyf::StatPropMsgHead").MemberByName("iPropertyVer"); m.Default.Int != 1 || m.Tag != 7 {
		t.Error("StatPropMsgHead.iPropertyVer")
	}
	ep := s.Struct("endpointf::EndpointF")
	if len(ep.Members) != 13 || ep.Members[10].Tag != 11 {
		t.Error("EndpointF tags")
	}
	as := s.Module("authf").Enum("AUTH_STATE")
	if as == nil || len(as.Items) != 9 || as.Items[0].Value != -127 || as.Items[8].Value != -106 {
		t.Errorf("AUTH_STATE %+v", as)
	}
	ri := s.Struct("notifyf::ReportInfo")
	if ri.Members[0].Type.Kind != KEnum || ri.Members[0].Type.Enum.Name != "ReportType" || ri.Members[7].Type.Enum.Items[2].Value != 2 {
		t.Error("ReportInfo enums")
	}
	ar := s.Struct("authf::AuthRequest")
	if ar.Members[0].Type.Kind != KStruct || ar.Members[0].Type.Struct.Name != "TokenKey" {
		t.Error("AuthRequest.sKey")
	}
	if c := s.Module("basef").Const("TARSSERVERUNKNOWNERR"); c == nil || c.Value.Int != -99 {
		t.Error("basef const")
	}
	if c := s.Module("basef").Const("TARSMESSAGETYPETRACE"); c == nil || c.Value.Int != 0x100 {
		t.Error("basef hex const")
	}
	if m := s.Module("queryf"); m == nil || len(m.Interfaces) != 1 || len(m.Interfaces[0].Funcs) != 6 {
		t.Error("queryf interface")
	}
	// every struct: both baselines and single deviations round-trip
	for _, st := range s.AllStructs() {
		ty := StructOf(st)
		d, n := Baselines(st)
		for _, base := range []*Value{d, n} {
			Deviations(st, base, 1, func(m *Member) []*Value { return Lattice(m.Type, Small) }, func(v *Value, _ []int) bool {
				for _, o := range []EncodeOptions{{}, {KeepDefaults: true}} {
					b := MustEncode(st, v, o)
					back, err := Decode(st, b)
					if err != nil {
						t.Fatalf("%s: %x: %v", st.QName(), b, err)
					}
					if df := Diff(ty, v, back); df != "" {
						t.Fatalf("%s: %s", st.QName(), df)
					}
				}
				return true
			})
		}
	}
}

func TestIDLText(t *testing.T) {
	src := `
#include "other.tars"
module a {
  enum Color { RED, GREEN = 5, BLUE };
  const int K = 0x10;
  const string NAME = "x\"y";
  struct P {
    0 require unsigned byte ub;
    1 optional unsigned short us = 65535;
    2 optional unsigned int ui = 4294967295;
    3 optional Color c = GREEN;
    4 optional int k = K;
    5 optional float f = 1.5;
    6 optional double d = -2.5e3;
    7 optional vector<map<string, vector<byte>>> vm;
    8 optional int arr[4];
    9 optional bool t = true;
    20 optional a::P2 fwd;
    10 optional long l = -9223372036854775808;
  };
  struct P2 { 0 optional string s = "q"; };
  key[P, ub];
  interface I { int f(P p, out vector<P2> o); void g(); };
};
module b { struct Q { 1 require a::P p; 2 optional a::Color c = a::BLUE; }; }
`
	s, err := ParseIDL("t.tars", src)
	if err != nil {
		t.Fatal(err)
	}
	p := s.Struct("a::P")
	if p == nil || len(p.Members) != 12 {
		t.Fatalf("P: %+v", p)
	}
	chk := func(name string, f func(m *Member) bool) {
		_, m := p.MemberByName(name)
		if m == nil || !f(m) {
			t.Errorf("member %s wrong: %+v", name, m)
		}
	}
	chk("ub", func(m *Member) bool { return m.Type == TUint8 && m.Require })
	chk("us", func(m *Member) bool { return m.Type == TUint16 && m.Default.Int == 65535 })
	chk("ui", func(m *Member) bool { return m.Default.Int == 4294967295 })
	chk("c", func(m *Member) bool { return m.Type.Kind == KEnum && m.Default.Int == 5 })
	chk("k", func(m *Member) bool { return m.Default.Int == 16 })
	chk("f", func(m *Member) bool { return uint32(m.Default.Bits) == math.Float32bits(1.5) })
	chk("d", func(m *Member) bool { return m.Default.Bits == math.Float64bits(-2500) })
	chk("vm", func(m *Member) bool { return m.Type.String() == "vector<map<string,vector<int8>>>" })
	chk("arr", func(m *Member) bool { return m.Type.Kind == KArray && m.Type.N == 4 })
	chk("t", func(m *Member) bool { return m.Default.Int == 1 })
	chk("l", func(m *Member) bool { return m.Default.Int == math.MinInt64 })
	chk("fwd", func(m *Member) bool { return m.Type.Struct != nil && m.Type.Struct.Name == "P2" && m.Tag == 20 })
	if p.Members[10].Name != "l" {
		t.Error("members not sorted by tag")
	}
	if e := s.Module("a").Enum("Color"); e.Items[2].Value != 6 {
		t.Error("enum auto increment")
	}
	if c := s.Module("a").Const("NAME"); c.Value.Str != `x"y` {
		t.Error("string const")
	}
	q := s.Struct("b::Q")
	if q.Members[0].Type.Struct != p || q.Members[1].Default.Int != 6 {
		t.Error("cross-module references")
	}
	if it := s.Module("a").Interfaces[0]; it.Name != "I" || len(it.Funcs) != 2 {
		t.Errorf("interface %+v", it)
	}
	for _, bad := range []string{"module a { struct S { 0 require int x } };", "module a { struct S { 0 require nosuch x; }; };",
		"module a { enum E { A, ", "module a { struct S { 0 require int x; 0 optional int y; }; };", "struct S {};", "module a { /* open"} {
		if _, err := ParseIDL("bad", bad); err == nil {
			t.Errorf("accepted %q", bad)
		}
	}
}
