package ref

import (
	"fmt"
	"sort"
	"strings"
)

// Kind is the kind of a schema type.
type Kind int

const (
	KBool Kind = iota
	KInt8
	KUint8
	KInt16
	KUint16
	KInt32
	KUint32
	KInt64
	KFloat
	KDouble
	KString
	KVector // vector<T>; vector<byte>/vector<unsigned byte> have IsBytes()==true
	KArray  // T name[N]
	KMap
	KStruct
	KEnum
)

var kindNames = [...]string{"bool", "int8", "uint8", "int16", "uint16", "int32", "uint32", "int64",
	"float", "double", "string", "vector", "array", "map", "struct", "enum"}

func (k Kind) String() string { return kindNames[k] }

// IsInteger: bool, the integer kinds and enum (all travel as integer fields).
func (k Kind) IsInteger() bool { return k <= KInt64 || k == KEnum }

// Type is a schema type.
type Type struct {
	Kind   Kind
	Elem   *Type      // vector, array
	N      int        // array size
	Key    *Type      // map
	Val    *Type      // map
	Struct *StructDef // struct
	Enum   *EnumDef   // enum
}

// Primitive type singletons.
var (
	TBool   = &Type{Kind: KBool}
	TInt8   = &Type{Kind: KInt8}
	TUint8  = &Type{Kind: KUint8}
	TInt16  = &Type{Kind: KInt16}
	TUint16 = &Type{Kind: KUint16}
	TInt32  = &Type{Kind: KInt32}
	TUint32 = &Type{Kind: KUint32}
	TInt64  = &Type{Kind: KInt64}
	TFloat  = &Type{Kind: KFloat}
	TDouble = &Type{Kind: KDouble}
	TString = &Type{Kind: KString}
)

// Primitives lists the primitive types in a fixed order.
var Primitives = []*Type{TBool, TInt8, TUint8, TInt16, TUint16, TInt32, TUint32, TInt64, TFloat, TDouble, TString}

func VectorOf(e *Type) *Type       { return &Type{Kind: KVector, Elem: e} }
func ArrayOf(e *Type, n int) *Type { return &Type{Kind: KArray, Elem: e, N: n} }
func MapOf(k, v *Type) *Type       { return &Type{Kind: KMap, Key: k, Val: v} }
func StructOf(s *StructDef) *Type  { return &Type{Kind: KStruct, Struct: s} }
func EnumOf(e *EnumDef) *Type      { return &Type{Kind: KEnum, Enum: e} }

// IsBytes: vector (or array) of byte / unsigned byte, which may travel as SimpleList.
func (t *Type) IsBytes() bool {
	return (t.Kind == KVector || t.Kind == KArray) && (t.Elem.Kind == KInt8 || t.Elem.Kind == KUint8)
}

// String renders the type in IDL-like syntax.
func (t *Type) String() string {
	switch t.Kind {
	case KVector:
		return "vector<" + t.Elem.String() + ">"
	case KArray:
		return fmt.Sprintf("%s[%d]", t.Elem, t.N)
	case KMap:
		return "map<" + t.Key.String() + "," + t.Val.String() + ">"
	case KStruct:
		return t.Struct.QName()
	case KEnum:
		return t.Enum.QName()
	}
	return t.Kind.String()
}

// ShortName is a coarse name for signatures: the kind, "bytes" for byte vectors.
func (t *Type) ShortName() string {
	if t.IsBytes() {
		return "bytes"
	}
	return t.Kind.String()
}

// IntRange returns the value range of an integer-like kind.
func (k Kind) IntRange() (lo, hi int64) {
	switch k {
	case KBool:
		return 0, 1
	case KInt8:
		return -128, 127
	case KUint8:
		return 0, 255
	case KInt16:
		return -32768, 32767
	case KUint16:
		return 0, 65535
	case KInt32, KEnum:
		return -2147483648, 2147483647
	case KUint32:
		return 0, 4294967295
	case KInt64:
		return -1 << 63, 1<<63 - 1
	}
	panic("ref: IntRange of " + k.String())
}

// Admissible reports whether wire type w may carry a value of schema type t
// (DESIGN.md Appendix B).
func (t *Type) Admissible(w WireType) bool {
	switch t.Kind {
	case KBool, KInt8:
		return w == WZero || w == WByte
	case KUint8, KInt16:
		return w == WZero || w == WByte || w == WShort
	case KUint16, KInt32, KEnum:
		return w == WZero || w == WByte || w == WShort || w == WInt
	case KUint32, KInt64:
		return w == WZero || w == WByte || w == WShort || w == WInt || w == WLong
	case KFloat:
		return w == WZero || w == WFloat
	case KDouble:
		return w == WZero || w == WFloat || w == WDouble
	case KString:
		return w == WString1 || w == WString4
	case KVector, KArray:
		if t.IsBytes() {
			return w == WList || w == WSimpleList
		}
		return w == WList
	case KMap:
		return w == WMap
	case KStruct:
		return w == WStructBegin
	}
	return false
}

// Member is one member of a struct.
type Member struct {
	Tag     uint8
	Name    string
	Require bool
	Type    *Type
	// Default is the IDL default (nil: none declared, the zero value applies).
	Default *Value
}

// StructDef is a struct definition; Members are ascending by tag.
type StructDef struct {
	Module  string
	Name    string
	Members []*Member
}

func (s *StructDef) QName() string { return s.Module + "::" + s.Name }

// Member returns the member with the given tag, or nil.
func (s *StructDef) MemberByTag(tag uint8) (int, *Member) {
	for i, m := range s.Members {
		if m.Tag == tag {
			return i, m
		}
	}
	return -1, nil
}

// MemberByName returns index and member with the given name.
func (s *StructDef) MemberByName(name string) (int, *Member) {
	for i, m := range s.Members {
		if m.Name == name {
			return i, m
		}
	}
	return -1, nil
}

// SortMembers orders members by tag (the wire order).
func (s *StructDef) SortMembers() {
	sort.SliceStable(s.Members, func(i, j int) bool { return s.Members[i].Tag < s.Members[j].Tag })
}

// EnumItem is one enumerator.
type EnumItem struct {
	Name  string
	Value int32
}

// EnumDef is an enum definition.
type EnumDef struct {
	Module string
	Name   string
	Items  []EnumItem
}

func (e *EnumDef) QName() string { return e.Module + "::" + e.Name }

// ConstDef is a module constant.
type ConstDef struct {
	Name  string
	Type  *Type
	Value *Value
}

// InterfaceDef is kept only by name and function names.
type InterfaceDef struct {
	Name  string
	Funcs []string
}

// Module is one IDL module.
type Module struct {
	Name       string
	File       string
	Structs    []*StructDef
	Enums      []*EnumDef
	Consts     []*ConstDef
	Interfaces []*InterfaceDef
}

func (m *Module) Struct(name string) *StructDef {
	for _, s := range m.Structs {
		if s.Name == name {
			return s
		}
	}
	return nil
}

func (m *Module) Enum(name string) *EnumDef {
	for _, e := range m.Enums {
		if e.Name == name {
			return e
		}
	}
	return nil
}

func (m *Module) Const(name string) *ConstDef {
	for _, c := range m.Consts {
		if c.Name == name {
			return c
		}
	}
	return nil
}

// Schema is a set of modules in the order they were read.
type Schema struct {
	Modules []*Module
}

func (s *Schema) Module(name string) *Module {
	for _, m := range s.Modules {
		if m.Name == name {
			return m
		}
	}
	return nil
}

// Struct looks a struct up by "module::Name" (or "module.Name").
func (s *Schema) Struct(qname string) *StructDef {
	qname = strings.Replace(qname, ".", "::", 1)
	i := strings.Index(qname, "::")
	if i < 0 {
		for _, m := range s.Modules {
			if d := m.Struct(qname); d != nil {
				return d
			}
		}
		return nil
	}
	if m := s.Module(qname[:i]); m != nil {
		return m.Struct(qname[i+2:])
	}
	return nil
}

// AllStructs lists every struct, modules in reading order, structs in
// declaration order.
func (s *Schema) AllStructs() []*StructDef {
	var out []*StructDef
	for _, m := range s.Modules {
		out = append(out, m.Structs...)
	}
	return out
}

// NewStruct is a convenience constructor for hand-written schemas.
func NewStruct(module, name string, members ...*Member) *StructDef {
	s := &StructDef{Module: module, Name: name, Members: members}
	s.SortMembers()
	return s
}

// Req / Opt build members.
func Req(tag uint8, name string, t *Type) *Member {
	return &Member{Tag: tag, Name: name, Require: true, Type: t}
}
func Opt(tag uint8, name string, t *Type, def *Value) *Member {
	return &Member{Tag: tag, Name: name, Type: t, Default: def}
}
