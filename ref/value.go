package ref

import (
	"fmt"
	"math"
	"sort"
	"strconv"
	"strings"
)

// Value is a node of a schema-level value tree.
//
//	bool, integers, enum   Int (bool: 0/1; unsigned kinds hold their numeric value)
//	float                  Bits = math.Float32bits (low half)
//	double                 Bits = math.Float64bits
//	string                 Str (arbitrary bytes)
//	vector/array of bytes  Bytes (raw bytes whatever the signedness)
//	other vector/array     Elems
//	map                    Keys[i] -> Vals[i] in wire order
//	struct                 Elems parallel to StructDef.Members
type Value struct {
	Kind  Kind
	Int   int64
	Bits  uint64
	Str   string
	Bytes []byte
	Elems []*Value
	Keys  []*Value
	Vals  []*Value
}

func VBool(b bool) *Value {
	if b {
		return &Value{Kind: KBool, Int: 1}
	}
	return &Value{Kind: KBool}
}
func VInt(k Kind, v int64) *Value      { return &Value{Kind: k, Int: v} }
func VFloat(bits uint32) *Value        { return &Value{Kind: KFloat, Bits: uint64(bits)} }
func VDouble(bits uint64) *Value       { return &Value{Kind: KDouble, Bits: bits} }
func VFloatOf(f float32) *Value        { return VFloat(math.Float32bits(f)) }
func VDoubleOf(f float64) *Value       { return VDouble(math.Float64bits(f)) }
func VString(s string) *Value          { return &Value{Kind: KString, Str: s} }
func VBytes(b []byte) *Value           { return &Value{Kind: KVector, Bytes: b} }
func VVector(elems ...*Value) *Value   { return &Value{Kind: KVector, Elems: elems} }
func VStruct(members ...*Value) *Value { return &Value{Kind: KStruct, Elems: members} }
func VMap(kv ...*Value) *Value {
	m := &Value{Kind: KMap}
	for i := 0; i+1 < len(kv); i += 2 {
		m.Keys = append(m.Keys, kv[i])
		m.Vals = append(m.Vals, kv[i+1])
	}
	return m
}

// Zero is the zero value of type t (struct: every member at its IDL default).
func Zero(t *Type) *Value {
	switch t.Kind {
	case KStruct:
		v := &Value{Kind: KStruct, Elems: make([]*Value, len(t.Struct.Members))}
		for i, m := range t.Struct.Members {
			v.Elems[i] = DefaultOf(m)
		}
		return v
	case KArray:
		v := &Value{Kind: KArray}
		if t.IsBytes() {
			v.Bytes = make([]byte, t.N)
			return v
		}
		v.Elems = make([]*Value, t.N)
		for i := range v.Elems {
			v.Elems[i] = Zero(t.Elem)
		}
		return v
	}
	return &Value{Kind: t.Kind}
}

// DefaultOf is the value a member has when it is absent from the wire.
func DefaultOf(m *Member) *Value {
	if m.Default != nil {
		return m.Default.Clone()
	}
	return Zero(m.Type)
}

// Clone deep-copies a value.
func (v *Value) Clone() *Value {
	if v == nil {
		return nil
	}
	c := *v
	if v.Bytes != nil {
		c.Bytes = append([]byte{}, v.Bytes...)
	}
	c.Elems = cloneVals(v.Elems)
	c.Keys = cloneVals(v.Keys)
	c.Vals = cloneVals(v.Vals)
	return &c
}

func cloneVals(a []*Value) []*Value {
	if a == nil {
		return nil
	}
	o := make([]*Value, len(a))
	for i, x := range a {
		o[i] = x.Clone()
	}
	return o
}

// FloatEq selects how floats are compared by DiffWith.
type FloatEq int

const (
	FloatBits      FloatEq = iota // identical bit patterns
	FloatBitsZeros                // identical bits, or both are zeros of either sign
)

// Equal: bit-exact on floats, nil ≡ empty for containers, maps as key sets
// (a repeated key counts once, last occurrence wins, like a Go map).
func Equal(t *Type, a, b *Value) bool { return Diff(t, a, b) == "" }

// Diff returns "" if a and b are equal as values of type t, else the path of
// the first difference with both sides rendered.
func Diff(t *Type, a, b *Value) string { return DiffWith(t, a, b, FloatBits) }

func DiffWith(t *Type, a, b *Value, fe FloatEq) string { return diff(t, a, b, "", fe) }

func diff(t *Type, a, b *Value, path string, fe FloatEq) string {
	if a == nil || b == nil {
		if a == b {
			return ""
		}
		return fmt.Sprintf("%s: %s != %s", path, Format(t, a), Format(t, b))
	}
	ne := func() string { return fmt.Sprintf("%s: %s != %s", path, Format(t, a), Format(t, b)) }
	switch {
	case t.Kind.IsInteger():
		if a.Int != b.Int {
			return ne()
		}
	case t.Kind == KFloat:
		if uint32(a.Bits) != uint32(b.Bits) && !(fe == FloatBitsZeros && uint32(a.Bits)<<1 == 0 && uint32(b.Bits)<<1 == 0) {
			return ne()
		}
	case t.Kind == KDouble:
		if a.Bits != b.Bits && !(fe == FloatBitsZeros && a.Bits<<1 == 0 && b.Bits<<1 == 0) {
			return ne()
		}
	case t.Kind == KString:
		if a.Str != b.Str {
			return ne()
		}
	case t.Kind == KVector || t.Kind == KArray:
		if t.IsBytes() {
			if string(a.Bytes) != string(b.Bytes) {
				return ne()
			}
			return ""
		}
		if len(a.Elems) != len(b.Elems) {
			return fmt.Sprintf("%s: length %d != %d", path, len(a.Elems), len(b.Elems))
		}
		for i := range a.Elems {
			if d := diff(t.Elem, a.Elems[i], b.Elems[i], fmt.Sprintf("%s[%d]", path, i), fe); d != "" {
				return d
			}
		}
	case t.Kind == KMap:
		ka, kb := mapIndex(t, a), mapIndex(t, b)
		if len(ka.keys) != len(kb.keys) {
			return fmt.Sprintf("%s: %d keys != %d keys", path, len(ka.keys), len(kb.keys))
		}
		for _, k := range ka.keys {
			j, ok := kb.at[k]
			if !ok {
				return fmt.Sprintf("%s: key %s only on the left", path, Format(t.Key, a.Keys[ka.at[k]]))
			}
			i := ka.at[k]
			if d := diff(t.Val, a.Vals[i], b.Vals[j], path+"{"+Format(t.Key, a.Keys[i])+"}", fe); d != "" {
				return d
			}
		}
	case t.Kind == KStruct:
		ms := t.Struct.Members
		if len(a.Elems) != len(ms) || len(b.Elems) != len(ms) {
			return fmt.Sprintf("%s: struct arity %d/%d, schema has %d", path, len(a.Elems), len(b.Elems), len(ms))
		}
		for i, m := range ms {
			if d := diff(m.Type, a.Elems[i], b.Elems[i], path+"."+m.Name, fe); d != "" {
				return d
			}
		}
	}
	return ""
}

type mapIdx struct {
	keys []string
	at   map[string]int
}

// mapIndex indexes the entries of a map value by canonical key, last
// occurrence of a repeated key winning.
func mapIndex(t *Type, v *Value) mapIdx {
	mi := mapIdx{at: map[string]int{}}
	for i, k := range v.Keys {
		ks := KeyString(t.Key, k)
		if _, ok := mi.at[ks]; !ok {
			mi.keys = append(mi.keys, ks)
		}
		mi.at[ks] = i
	}
	sort.Strings(mi.keys)
	return mi
}

// KeyString is a canonical, injective rendering of a value (used to compare
// map keys and to sort map entries deterministically).
func KeyString(t *Type, v *Value) string {
	var sb strings.Builder
	keyString(&sb, t, v)
	return sb.String()
}

func keyString(sb *strings.Builder, t *Type, v *Value) {
	switch {
	case t.Kind.IsInteger():
		// fixed width, order preserving
		fmt.Fprintf(sb, "i%016x", uint64(v.Int)^(1<<63))
	case t.Kind == KFloat:
		fmt.Fprintf(sb, "f%08x", uint32(v.Bits))
	case t.Kind == KDouble:
		fmt.Fprintf(sb, "d%016x", v.Bits)
	case t.Kind == KString:
		fmt.Fprintf(sb, "s%d:%s", len(v.Str), v.Str)
	case t.Kind == KVector || t.Kind == KArray:
		if t.IsBytes() {
			fmt.Fprintf(sb, "b%d:%s", len(v.Bytes), v.Bytes)
			return
		}
		fmt.Fprintf(sb, "v%d[", len(v.Elems))
		for _, e := range v.Elems {
			keyString(sb, t.Elem, e)
		}
		sb.WriteByte(']')
	case t.Kind == KMap:
		mi := mapIndex(t, v)
		fmt.Fprintf(sb, "m%d{", len(mi.keys))
		for _, k := range mi.keys {
			sb.WriteString(k)
			keyString(sb, t.Val, v.Vals[mi.at[k]])
		}
		sb.WriteByte('}')
	case t.Kind == KStruct:
		sb.WriteString("S(")
		for i, m := range t.Struct.Members {
			keyString(sb, m.Type, v.Elems[i])
		}
		sb.WriteByte(')')
	}
}

// Format renders a value compactly (long strings / byte vectors abbreviated).
func Format(t *Type, v *Value) string {
	if v == nil {
		return "<nil>"
	}
	switch {
	case t.Kind == KBool:
		return strconv.FormatBool(v.Int != 0)
	case t.Kind.IsInteger():
		return strconv.FormatInt(v.Int, 10)
	case t.Kind == KFloat:
		return fmt.Sprintf("f32:%08x", uint32(v.Bits))
	case t.Kind == KDouble:
		return fmt.Sprintf("f64:%016x", v.Bits)
	case t.Kind == KString:
		return abbrev([]byte(v.Str), true)
	case t.Kind == KVector || t.Kind == KArray:
		if t.IsBytes() {
			return abbrev(v.Bytes, false)
		}
		parts := make([]string, 0, len(v.Elems))
		for i, e := range v.Elems {
			if i >= 6 {
				parts = append(parts, fmt.Sprintf("…(%d)", len(v.Elems)))
				break
			}
			parts = append(parts, Format(t.Elem, e))
		}
		return "[" + strings.Join(parts, ",") + "]"
	case t.Kind == KMap:
		parts := make([]string, 0, len(v.Keys))
		for i := range v.Keys {
			if i >= 6 {
				parts = append(parts, fmt.Sprintf("…(%d)", len(v.Keys)))
				break
			}
			parts = append(parts, Format(t.Key, v.Keys[i])+":"+Format(t.Val, v.Vals[i]))
		}
		return "{" + strings.Join(parts, ",") + "}"
	case t.Kind == KStruct:
		parts := make([]string, 0, len(v.Elems))
		for i, m := range t.Struct.Members {
			if i < len(v.Elems) {
				parts = append(parts, m.Name+"="+Format(m.Type, v.Elems[i]))
			}
		}
		return t.Struct.Name + "{" + strings.Join(parts, " ") + "}"
	}
	return "?"
}

func abbrev(b []byte, quote bool) string {
	n := len(b)
	cut := b
	if n > 24 {
		cut = b[:24]
	}
	var s string
	if quote {
		s = strconv.QuoteToASCII(string(cut))
	} else {
		s = fmt.Sprintf("x%x", cut)
	}
	if n > 24 {
		s += fmt.Sprintf("…(%d)", n)
	}
	return s
}
