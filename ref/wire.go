// Package ref is an independent reference implementation of the Tars wire
// format, written from the protocol description (DESIGN.md Appendix B) and
// not from TarsGo's codec.go.  It has no dependency on TarsGo.
//
// Layers:
//
//	wire.go     generic field tree (Node), strict parser, as-is / canonical encoder
//	schema.go   schema model (Type, StructDef, Member, EnumDef, ...)
//	value.go    value trees (Value), equality, printing, defaults
//	codec.go    schema-directed strict decoder and canonical encoder
//	idl.go      mini reader for .tars IDL files -> schema model
//	lattice.go  deterministic value lattices and deviation-bounded products
//	goval.go    reflection bridge between Value trees and generated Go structs
package ref

import (
	"encoding/binary"
	"fmt"
)

// WireType is the 4-bit type code of a field head.
type WireType uint8

const (
	WByte        WireType = 0
	WShort       WireType = 1
	WInt         WireType = 2
	WLong        WireType = 3
	WFloat       WireType = 4
	WDouble      WireType = 5
	WString1     WireType = 6
	WString4     WireType = 7
	WMap         WireType = 8
	WList        WireType = 9
	WStructBegin WireType = 10
	WStructEnd   WireType = 11
	WZero        WireType = 12
	WSimpleList  WireType = 13
)

var wireNames = [16]string{"BYTE", "SHORT", "INT", "LONG", "FLOAT", "DOUBLE", "STRING1", "STRING4",
	"MAP", "LIST", "StructBegin", "StructEnd", "ZeroTag", "SimpleList", "INVALID14", "INVALID15"}

func (w WireType) String() string { return wireNames[w&15] }

// Valid reports whether w is one of the 14 defined type codes.
func (w WireType) Valid() bool { return w <= WSimpleList }

// FixedSize is the payload size of a fixed-width type (ZeroTag: 0), -1 otherwise.
func (w WireType) FixedSize() int {
	switch w {
	case WByte:
		return 1
	case WShort:
		return 2
	case WInt, WFloat:
		return 4
	case WLong, WDouble:
		return 8
	case WZero:
		return 0
	}
	return -1
}

// IsInt reports whether w is an integer encoding (ZeroTag included).
func (w WireType) IsInt() bool { return w <= WLong || w == WZero }

// Node is one field of the generic wire tree.
type Node struct {
	Tag  uint8
	Type WireType

	Int  int64  // BYTE/SHORT/INT/LONG: payload, sign-extended. ZeroTag: 0.
	Bits uint64 // FLOAT: Float32bits in the low half; DOUBLE: Float64bits.
	Data []byte // STRING1/STRING4/SimpleList: payload bytes.

	// Len is the embedded length field (tag 0 integer) of LIST/MAP/SimpleList
	// exactly as parsed.  Nil in a constructed node: the encoder then writes
	// the canonical (narrowest) length.
	Len *Node
	// Kids: LIST elements; MAP key,value,key,value,...; struct members
	// (the closing StructEnd is implied and not stored).
	Kids []*Node

	// Spans (offsets into the parsed input; zero in constructed nodes).
	Start   int // first head byte
	HeadEnd int // one past the head (1 or 2 bytes)
	End     int // one past the last byte of the field (incl. StructEnd)
	// [LenStart,LenEnd) is the embedded length: 1 byte for STRING1, 4 bytes
	// for STRING4, the whole length field (head+payload) for LIST/MAP/
	// SimpleList.  PayloadStart is the first byte after it (string bytes,
	// raw bytes, first element).
	LenStart, LenEnd int
	PayloadStart     int
}

// ErrCode classifies a reference decoding failure.
type ErrCode int

const (
	ErrNone       ErrCode = iota
	ErrTruncated          // input ends inside a head, a fixed-width payload or a length
	ErrLength             // an embedded length announces more than remains
	ErrNegLength          // negative embedded length
	ErrBadWire            // type code 14/15, or a stray StructEnd
	ErrLenField           // the length of LIST/MAP/SimpleList is not an integer field with tag 0
	ErrSimpleHead         // SimpleList element head is not BYTE tag 0
	ErrElemTag            // list element / map key / map value carries the wrong tag
	ErrStructEnd          // StructEnd missing, or with a tag other than 0
	ErrDepth              // nesting deeper than the cap
	ErrTagOrder           // descending tag inside a struct body
	ErrDupTag             // repeated tag inside a struct body
	ErrMistyped           // wire type not admissible for the schema type
	ErrMissing            // required member absent
	ErrRange              // integer does not fit the schema type / array too long
	ErrSchema             // value tree does not match the schema (encoder side)
)

var errNames = map[ErrCode]string{ErrTruncated: "truncated", ErrLength: "length-exceeds-remaining", ErrNegLength: "negative-length",
	ErrBadWire: "bad-wire-type", ErrLenField: "bad-length-field", ErrSimpleHead: "bad-simplelist-head", ErrElemTag: "bad-element-tag",
	ErrStructEnd: "bad-struct-end", ErrDepth: "depth-cap", ErrTagOrder: "descending-tag", ErrDupTag: "duplicate-tag",
	ErrMistyped: "mistyped", ErrMissing: "required-missing", ErrRange: "out-of-range", ErrSchema: "schema-mismatch"}

func (c ErrCode) String() string { return errNames[c] }

// Part names the part of a field an offset falls into.
type Part int

const (
	PartHead Part = iota
	PartLength
	PartPayload
	PartBody // between the children of LIST/MAP/struct
)

func (p Part) String() string { return [...]string{"head", "length", "payload", "body"}[p] }

// Error is the error type of every failure reported by this package's
// parser and decoder.
type Error struct {
	Code ErrCode
	Off  int      // input offset at which the problem was detected
	Wire WireType // wire type of the innermost field involved
	Part Part
	Path string // schema path, for schema-level errors
	Msg  string
}

func (e *Error) Error() string {
	s := fmt.Sprintf("ref: %s at offset %d (%s %s)", e.Code, e.Off, e.Wire, e.Part)
	if e.Path != "" {
		s += " path " + e.Path
	}
	if e.Msg != "" {
		s += ": " + e.Msg
	}
	return s
}

// CodeOf returns the ErrCode of err (ErrNone for nil or foreign errors).
func CodeOf(err error) ErrCode {
	if e, ok := err.(*Error); ok {
		return e.Code
	}
	return ErrNone
}

// DefaultMaxDepth is the nesting cap of the strict parser.
const DefaultMaxDepth = 64

// ParseOptions tunes the strict parser.
type ParseOptions struct {
	MaxDepth int // 0 = DefaultMaxDepth
	// AnyOrder disables the ascending/unique tag rule inside struct bodies
	// (used to parse deliberately non-canonical inputs).
	AnyOrder bool
}

// Parsed is the result of a generic parse.
type Parsed struct {
	Fields   []*Node
	MaxDepth int // deepest nesting reached (top-level fields are depth 1)
	Consumed int // bytes consumed by the fields returned
}

type parser struct {
	b        []byte
	maxDepth int
	anyOrder bool
	reached  int
}

func (p *parser) err(code ErrCode, off int, w WireType, part Part, msg string) *Error {
	return &Error{Code: code, Off: off, Wire: w, Part: part, Msg: msg}
}

// head reads a field head at off.
func (p *parser) head(off int) (tag uint8, ty WireType, next int, e *Error) {
	if off >= len(p.b) {
		return 0, 0, off, p.err(ErrTruncated, off, 0, PartHead, "no head byte")
	}
	h := p.b[off]
	ty = WireType(h & 0x0f)
	tag = h >> 4
	next = off + 1
	if tag == 15 {
		if next >= len(p.b) {
			return 0, ty, off, p.err(ErrTruncated, next, ty, PartHead, "extended tag byte missing")
		}
		tag = p.b[next]
		next++
	}
	return
}

// field parses one complete field starting at off.
func (p *parser) field(off, depth int) (*Node, *Error) {
	if depth > p.reached {
		p.reached = depth
	}
	tag, ty, pos, e := p.head(off)
	if e != nil {
		return nil, e
	}
	n := &Node{Tag: tag, Type: ty, Start: off, HeadEnd: pos}
	rem := len(p.b) - pos
	switch ty {
	case WByte, WShort, WInt, WLong, WFloat, WDouble:
		sz := ty.FixedSize()
		if rem < sz {
			return nil, p.err(ErrTruncated, len(p.b), ty, PartPayload, fmt.Sprintf("%d of %d payload bytes", rem, sz))
		}
		pl := p.b[pos : pos+sz]
		switch ty {
		case WByte:
			n.Int = int64(int8(pl[0]))
		case WShort:
			n.Int = int64(int16(binary.BigEndian.Uint16(pl)))
		case WInt:
			n.Int = int64(int32(binary.BigEndian.Uint32(pl)))
		case WLong:
			n.Int = int64(binary.BigEndian.Uint64(pl))
		case WFloat:
			n.Bits = uint64(binary.BigEndian.Uint32(pl))
		case WDouble:
			n.Bits = binary.BigEndian.Uint64(pl)
		}
		n.PayloadStart = pos
		n.End = pos + sz
	case WZero:
		n.PayloadStart = pos
		n.End = pos
	case WString1, WString4:
		lsz := 1
		if ty == WString4 {
			lsz = 4
		}
		if rem < lsz {
			return nil, p.err(ErrTruncated, len(p.b), ty, PartLength, fmt.Sprintf("%d of %d length bytes", rem, lsz))
		}
		var l uint64
		if lsz == 1 {
			l = uint64(p.b[pos])
		} else {
			l = uint64(binary.BigEndian.Uint32(p.b[pos:]))
		}
		n.LenStart, n.LenEnd = pos, pos+lsz
		pos += lsz
		if l > uint64(len(p.b)-pos) {
			return nil, p.err(ErrLength, pos, ty, PartPayload, fmt.Sprintf("length %d, %d bytes remain", l, len(p.b)-pos))
		}
		n.PayloadStart = pos
		n.Data = p.b[pos : pos+int(l)]
		n.End = pos + int(l)
	case WSimpleList:
		if depth+1 > p.reached {
			p.reached = depth + 1
		}
		etag, ety, epos, e := p.head(pos)
		if e != nil {
			e.Wire = ty
			return nil, e
		}
		if ety != WByte || etag != 0 {
			return nil, p.err(ErrSimpleHead, pos, ty, PartHead, fmt.Sprintf("element head %s tag %d", ety, etag))
		}
		l, ln, e := p.length(epos, ty)
		if e != nil {
			return nil, e
		}
		n.Len = ln
		n.LenStart, n.LenEnd = ln.Start, ln.End
		pos = ln.End
		if l > int64(len(p.b)-pos) {
			return nil, p.err(ErrLength, pos, ty, PartPayload, fmt.Sprintf("length %d, %d bytes remain", l, len(p.b)-pos))
		}
		n.PayloadStart = pos
		n.Data = p.b[pos : pos+int(l)]
		n.End = pos + int(l)
	case WList, WMap:
		if depth >= p.maxDepth {
			return nil, p.err(ErrDepth, off, ty, PartHead, fmt.Sprintf("nesting deeper than %d", p.maxDepth))
		}
		l, ln, e := p.length(pos, ty)
		if e != nil {
			return nil, e
		}
		n.Len = ln
		n.LenStart, n.LenEnd = ln.Start, ln.End
		pos = ln.End
		n.PayloadStart = pos
		per := int64(1)
		if ty == WMap {
			per = 2
		}
		// every element needs at least one byte: a larger count cannot be honoured
		if l*per > int64(len(p.b)-pos) {
			return nil, p.err(ErrLength, pos, ty, PartBody, fmt.Sprintf("%d elements announced, %d bytes remain", l, len(p.b)-pos))
		}
		n.Kids = make([]*Node, 0, int(l*per))
		for i := int64(0); i < l*per; i++ {
			if pos >= len(p.b) {
				return nil, p.err(ErrLength, pos, ty, PartBody, fmt.Sprintf("%d of %d elements present", i/per, l))
			}
			k, e := p.field(pos, depth+1)
			if e != nil {
				return nil, e
			}
			want := uint8(0)
			if ty == WMap && i%2 == 1 {
				want = 1
			}
			if k.Tag != want {
				return nil, p.err(ErrElemTag, pos, ty, PartBody, fmt.Sprintf("element tag %d, want %d", k.Tag, want))
			}
			if k.Type == WStructEnd {
				return nil, p.err(ErrBadWire, pos, ty, PartBody, "StructEnd as container element")
			}
			n.Kids = append(n.Kids, k)
			pos = k.End
		}
		n.End = pos
	case WStructBegin:
		if depth >= p.maxDepth {
			return nil, p.err(ErrDepth, off, ty, PartHead, fmt.Sprintf("nesting deeper than %d", p.maxDepth))
		}
		n.PayloadStart = pos
		kids, end, e := p.body(pos, depth+1, true)
		if e != nil {
			return nil, e
		}
		n.Kids = kids
		n.End = end
	case WStructEnd:
		// only body() may consume it
		n.PayloadStart = pos
		n.End = pos
	default:
		return nil, p.err(ErrBadWire, off, ty, PartHead, "undefined type code")
	}
	return n, nil
}

// length parses the integer length field of LIST/MAP/SimpleList at off.
func (p *parser) length(off int, owner WireType) (int64, *Node, *Error) {
	tag, ty, pos, e := p.head(off)
	if e != nil {
		e.Wire, e.Part = owner, PartLength
		return 0, nil, e
	}
	if !ty.IsInt() || tag != 0 {
		return 0, nil, p.err(ErrLenField, off, owner, PartLength, fmt.Sprintf("length field is %s tag %d", ty, tag))
	}
	_ = pos
	ln, e := p.field(off, 0)
	if e != nil {
		return 0, nil, e
	}
	if ln.Int < 0 {
		return 0, nil, p.err(ErrNegLength, off, owner, PartLength, fmt.Sprintf("length %d", ln.Int))
	}
	if ty == WLong && ln.Int > int64(1)<<31-1 {
		return 0, nil, p.err(ErrLength, off, owner, PartLength, fmt.Sprintf("length %d", ln.Int))
	}
	return ln.Int, ln, nil
}

// body parses a sequence of fields: up to StructEnd (nested) or end of input.
func (p *parser) body(off, depth int, nested bool) ([]*Node, int, *Error) {
	var kids []*Node
	last := -1
	pos := off
	for {
		if pos >= len(p.b) {
			if nested {
				return nil, pos, p.err(ErrStructEnd, pos, WStructBegin, PartBody, "input ends before StructEnd")
			}
			return kids, pos, nil
		}
		k, e := p.field(pos, depth)
		if e != nil {
			return kids, pos, e
		}
		if k.Type == WStructEnd {
			if !nested {
				return kids, pos, p.err(ErrBadWire, pos, WStructEnd, PartHead, "StructEnd outside a struct")
			}
			if k.Tag != 0 {
				return nil, pos, p.err(ErrStructEnd, pos, WStructEnd, PartHead, fmt.Sprintf("StructEnd with tag %d", k.Tag))
			}
			return kids, k.End, nil
		}
		if !p.anyOrder {
			if int(k.Tag) == last {
				return kids, pos, p.err(ErrDupTag, pos, k.Type, PartHead, fmt.Sprintf("tag %d repeated", k.Tag))
			}
			if int(k.Tag) < last {
				return kids, pos, p.err(ErrTagOrder, pos, k.Type, PartHead, fmt.Sprintf("tag %d after %d", k.Tag, last))
			}
		}
		last = int(k.Tag)
		kids = append(kids, k)
		pos = k.End
	}
}

func newParser(b []byte, o ParseOptions) *parser {
	p := &parser{b: b, maxDepth: o.MaxDepth, anyOrder: o.AnyOrder}
	if p.maxDepth <= 0 {
		p.maxDepth = DefaultMaxDepth
	}
	return p
}

// Parse strictly parses b as a struct body without frame (what a generated
// WriteTo produces): a sequence of complete fields up to the end of input,
// tags ascending and unique.
func Parse(b []byte) ([]*Node, error) {
	r, err := ParseWith(b, ParseOptions{})
	if err != nil {
		return nil, err
	}
	return r.Fields, nil
}

// ParseWith is Parse with options; the depth reached is reported even on error.
func ParseWith(b []byte, o ParseOptions) (*Parsed, error) {
	p := newParser(b, o)
	kids, end, e := p.body(0, 1, false)
	res := &Parsed{Fields: kids, MaxDepth: p.reached, Consumed: end}
	if e != nil {
		return res, e
	}
	return res, nil
}

// ParsePrefix returns the longest run of complete top-level fields at the
// start of b, the number of bytes they occupy, and the error that stopped the
// parse (nil if all of b was consumed).
func ParsePrefix(b []byte) ([]*Node, int, error) {
	p := newParser(b, ParseOptions{})
	kids, end, e := p.body(0, 1, false)
	if e != nil {
		return kids, end, e
	}
	return kids, end, nil
}

// ParseField parses exactly one field at the start of b and returns it with
// its size.
func ParseField(b []byte) (*Node, int, error) {
	p := newParser(b, ParseOptions{})
	n, e := p.field(0, 1)
	if e != nil {
		return nil, 0, e
	}
	if n.Type == WStructEnd {
		return nil, 0, p.err(ErrBadWire, 0, WStructEnd, PartHead, "StructEnd outside a struct")
	}
	return n, n.End, nil
}

// ---------------------------------------------------------------- encoding

// AppendHead appends the head for (tag, type).
func AppendHead(dst []byte, tag uint8, ty WireType) []byte {
	if tag < 15 {
		return append(dst, tag<<4|uint8(ty))
	}
	return append(dst, 0xF0|uint8(ty), tag)
}

// NarrowestInt is the narrowest integer wire type that holds v.
func NarrowestInt(v int64) WireType {
	switch {
	case v == 0:
		return WZero
	case v >= -128 && v <= 127:
		return WByte
	case v >= -32768 && v <= 32767:
		return WShort
	case v >= -2147483648 && v <= 2147483647:
		return WInt
	}
	return WLong
}

// FitsInt reports whether v can be written with integer wire type w.
func FitsInt(v int64, w WireType) bool {
	switch w {
	case WZero:
		return v == 0
	case WByte:
		return v >= -128 && v <= 127
	case WShort:
		return v >= -32768 && v <= 32767
	case WInt:
		return v >= -2147483648 && v <= 2147483647
	case WLong:
		return true
	}
	return false
}

// Append encodes the node as it is (its own Type, its own Len node if any).
// It panics on a node that cannot be encoded (e.g. 300 bytes as STRING1).
func (n *Node) Append(dst []byte) []byte {
	dst = AppendHead(dst, n.Tag, n.Type)
	switch n.Type {
	case WByte:
		dst = append(dst, byte(n.Int))
	case WShort:
		dst = binary.BigEndian.AppendUint16(dst, uint16(n.Int))
	case WInt:
		dst = binary.BigEndian.AppendUint32(dst, uint32(n.Int))
	case WLong:
		dst = binary.BigEndian.AppendUint64(dst, uint64(n.Int))
	case WFloat:
		dst = binary.BigEndian.AppendUint32(dst, uint32(n.Bits))
	case WDouble:
		dst = binary.BigEndian.AppendUint64(dst, n.Bits)
	case WString1:
		if len(n.Data) > 255 {
			panic("ref: STRING1 longer than 255")
		}
		dst = append(dst, byte(len(n.Data)))
		dst = append(dst, n.Data...)
	case WString4:
		dst = binary.BigEndian.AppendUint32(dst, uint32(len(n.Data)))
		dst = append(dst, n.Data...)
	case WSimpleList:
		dst = AppendHead(dst, 0, WByte)
		dst = n.appendLen(dst, len(n.Data))
		dst = append(dst, n.Data...)
	case WList:
		dst = n.appendLen(dst, len(n.Kids))
		for _, k := range n.Kids {
			dst = k.Append(dst)
		}
	case WMap:
		dst = n.appendLen(dst, len(n.Kids)/2)
		for _, k := range n.Kids {
			dst = k.Append(dst)
		}
	case WStructBegin:
		for _, k := range n.Kids {
			dst = k.Append(dst)
		}
		dst = AppendHead(dst, 0, WStructEnd)
	case WZero, WStructEnd:
	default:
		panic("ref: cannot encode wire type " + n.Type.String())
	}
	return dst
}

func (n *Node) appendLen(dst []byte, l int) []byte {
	if n.Len != nil {
		return n.Len.Append(dst)
	}
	return NInt(0, int64(l)).Append(dst)
}

// Bytes encodes the node into a fresh slice.
func (n *Node) Bytes() []byte { return n.Append(nil) }

// EncodeNodes concatenates the encodings of fields (a struct body).
func EncodeNodes(fields []*Node) []byte {
	var b []byte
	for _, f := range fields {
		b = f.Append(b)
	}
	return b
}

// Constructors for wire trees.  The "N" prefix keeps them apart from the
// schema-level constructors of value.go.

// NInt is the canonical (narrowest) integer field.
func NInt(tag uint8, v int64) *Node { return &Node{Tag: tag, Type: NarrowestInt(v), Int: v} }

// NIntAs is an integer field of the given width; v must fit.
func NIntAs(tag uint8, v int64, w WireType) *Node {
	if !FitsInt(v, w) {
		panic(fmt.Sprintf("ref: %d does not fit %s", v, w))
	}
	return &Node{Tag: tag, Type: w, Int: v}
}

// NZero is a ZeroTag field.
func NZero(tag uint8) *Node { return &Node{Tag: tag, Type: WZero} }

// NFloat / NDouble carry bit patterns.
func NFloat(tag uint8, bits uint32) *Node  { return &Node{Tag: tag, Type: WFloat, Bits: uint64(bits)} }
func NDouble(tag uint8, bits uint64) *Node { return &Node{Tag: tag, Type: WDouble, Bits: bits} }

// NStr picks STRING1 up to 255 bytes, STRING4 above.
func NStr(tag uint8, s []byte) *Node {
	w := WString1
	if len(s) > 255 {
		w = WString4
	}
	return &Node{Tag: tag, Type: w, Data: s}
}

// NStrAs forces the string type.
func NStrAs(tag uint8, s []byte, w WireType) *Node { return &Node{Tag: tag, Type: w, Data: s} }

// NBytes is a SimpleList.
func NBytes(tag uint8, data []byte) *Node { return &Node{Tag: tag, Type: WSimpleList, Data: data} }

// NList builds a LIST; element tags are forced to 0.
func NList(tag uint8, elems ...*Node) *Node {
	for _, e := range elems {
		e.Tag = 0
	}
	return &Node{Tag: tag, Type: WList, Kids: elems}
}

// NMap builds a MAP from alternating key, value nodes; tags are forced to 0/1.
func NMap(tag uint8, kv ...*Node) *Node {
	if len(kv)%2 != 0 {
		panic("ref: NMap needs key/value pairs")
	}
	for i, e := range kv {
		e.Tag = uint8(i % 2)
	}
	return &Node{Tag: tag, Type: WMap, Kids: kv}
}

// NStruct builds a struct field; members must be ascending by tag.
func NStruct(tag uint8, members ...*Node) *Node {
	return &Node{Tag: tag, Type: WStructBegin, Kids: members}
}

// Clone deep-copies a node (spans included).
func (n *Node) Clone() *Node {
	if n == nil {
		return nil
	}
	c := *n
	c.Len = n.Len.Clone()
	if n.Kids != nil {
		c.Kids = make([]*Node, len(n.Kids))
		for i, k := range n.Kids {
			c.Kids[i] = k.Clone()
		}
	}
	return &c
}

// Walk visits n and all descendants (length nodes excluded) in wire order.
func (n *Node) Walk(f func(*Node)) {
	f(n)
	for _, k := range n.Kids {
		k.Walk(f)
	}
}

// Locate finds the innermost field whose span contains offset off
// (Start <= off < End, or off == End for the last unfinished field) and the
// part of it that off falls into.  fields must carry spans.
func Locate(fields []*Node, off int) (*Node, Part) {
	for _, f := range fields {
		if off < f.Start || off >= f.End {
			continue
		}
		return f.locate(off)
	}
	return nil, PartBody
}

func (n *Node) locate(off int) (*Node, Part) {
	if off < n.HeadEnd {
		return n, PartHead
	}
	if n.LenEnd > n.LenStart && off < n.LenEnd {
		if n.Type == WSimpleList && off < n.LenStart {
			return n, PartHead // the inner BYTE head
		}
		if n.Len != nil && off >= n.Len.HeadEnd {
			return n.Len, PartPayload
		}
		return n, PartLength
	}
	for _, k := range n.Kids {
		if off >= k.Start && off < k.End {
			return k.locate(off)
		}
	}
	switch n.Type {
	case WList, WMap, WStructBegin:
		return n, PartBody
	}
	return n, PartPayload
}

// WellFormedAlternatives returns, for every wire type, small well-formed
// fields with the given tag (used to substitute a field by one of another
// type).  Deterministic order.
func WellFormedAlternatives(tag uint8) []*Node {
	return []*Node{
		NIntAs(tag, 1, WByte),
		NIntAs(tag, 0x0102, WShort),
		NIntAs(tag, 0x00010203, WInt), // small enough to be harmless if taken for a length
		NIntAs(tag, 0x0102030405060708, WLong),
		NFloat(tag, 0x3f800000),
		NDouble(tag, 0x3ff0000000000000),
		NStrAs(tag, []byte{}, WString1),
		NStrAs(tag, []byte("ab"), WString1),
		NStrAs(tag, []byte{}, WString4),
		NStrAs(tag, []byte("ab"), WString4),
		NMap(tag),
		NMap(tag, NStr(0, []byte("k")), NStr(1, []byte("v"))),
		NMap(tag, NInt(0, 1), NInt(1, 2)),
		NList(tag),
		NList(tag, NInt(0, 1)),
		NList(tag, NStr(0, []byte("e"))),
		NStruct(tag),
		NStruct(tag, NInt(0, 1), NStr(1, []byte("s"))),
		NZero(tag),
		NBytes(tag, []byte{}),
		NBytes(tag, []byte{1, 2}),
	}
}

// Allocation-free canonical primitive encoders (same bytes as the Node
// constructors above; for hot loops).

// AppendInt appends the canonical integer field.
func AppendInt(dst []byte, tag uint8, v int64) []byte {
	return AppendIntAs(dst, tag, v, NarrowestInt(v))
}

// AppendIntAs appends an integer field of width w; v must fit.
func AppendIntAs(dst []byte, tag uint8, v int64, w WireType) []byte {
	dst = AppendHead(dst, tag, w)
	switch w {
	case WByte:
		dst = append(dst, byte(v))
	case WShort:
		dst = binary.BigEndian.AppendUint16(dst, uint16(v))
	case WInt:
		dst = binary.BigEndian.AppendUint32(dst, uint32(v))
	case WLong:
		dst = binary.BigEndian.AppendUint64(dst, uint64(v))
	case WZero:
	default:
		panic("ref: AppendIntAs with " + w.String())
	}
	return dst
}

// AppendFloat32 / AppendFloat64 append FLOAT / DOUBLE fields from bit patterns.
func AppendFloat32(dst []byte, tag uint8, bits uint32) []byte {
	return binary.BigEndian.AppendUint32(AppendHead(dst, tag, WFloat), bits)
}
func AppendFloat64(dst []byte, tag uint8, bits uint64) []byte {
	return binary.BigEndian.AppendUint64(AppendHead(dst, tag, WDouble), bits)
}

// AppendString appends STRING1 (up to 255 bytes) or STRING4.
func AppendString(dst []byte, tag uint8, s string) []byte {
	if len(s) <= 255 {
		dst = append(AppendHead(dst, tag, WString1), byte(len(s)))
	} else {
		dst = binary.BigEndian.AppendUint32(AppendHead(dst, tag, WString4), uint32(len(s)))
	}
	return append(dst, s...)
}
