#!/bin/bash
# Builds the framework from files on disk (offline), binds the in-memory network
# to the kernel (checks/shimconf) and warms the build cache.
cd "$(dirname "$0")" || exit 2
. ./lib.sh
build_instr
(cd "$VERIF_ROOT" && go build ./vm/... ./e1 ./common ./ref ./gen ./tnet) || exit 2
(cd "$VERIF_ROOT" && go test ./vm ./ref ./gen > "$WORK/setup-unit-tests.log" 2>&1) || { cat "$WORK/setup-unit-tests.log"; exit 2; }
(cd "$REPO" && go build ./tars/... ) || exit 2
(cd "$REPO/tars/tools/tars2go" && go build -o "$WORK/bin/tars2go.setup" .) || exit 2
(cd "$VERIF_ROOT" && go build -o "$WORK/bin/shimconf" ./checks/shimconf) || exit 2
"$WORK/bin/shimconf" > "$WORK/shimconf.log" 2>&1 || { cat "$WORK/shimconf.log"; echo "setup: vnet does not agree with the kernel"; exit 2; }
tail -1 "$WORK/shimconf.log"
echo "setup ok"
