#!/bin/bash
# Builds the framework from files on disk (offline) and warms the build cache.
cd "$(dirname "$0")" || exit 2
. ./lib.sh
build_instr
(cd "$VERIF_ROOT" && go build ./vm/... ./e1 ./common) || exit 2
(cd "$REPO" && go build ./tars/... ) || exit 2
echo "setup ok"
