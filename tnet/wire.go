// Package tnet holds what the transport scenarios share: an independent
// mini-codec for Tars request/response packets used by the scripted peers
// (never TarsGo's own codec), framing helpers and scripted servers.
package tnet

import (
	"encoding/binary"
	"errors"
	"fmt"
	"sort"
)

// ---- writer -----------------------------------------------------------------

type W struct{ B []byte }

func (w *W) head(tag byte, ty byte) {
	if tag < 15 {
		w.B = append(w.B, tag<<4|ty)
	} else {
		w.B = append(w.B, 0xF0|ty, tag)
	}
}

func (w *W) Int(tag byte, v int64) {
	switch {
	case v == 0:
		w.head(tag, 12)
	case v >= -128 && v <= 127:
		w.head(tag, 0)
		w.B = append(w.B, byte(v))
	case v >= -32768 && v <= 32767:
		w.head(tag, 1)
		w.B = binary.BigEndian.AppendUint16(w.B, uint16(v))
	case v >= -(1<<31) && v <= 1<<31-1:
		w.head(tag, 2)
		w.B = binary.BigEndian.AppendUint32(w.B, uint32(v))
	default:
		w.head(tag, 3)
		w.B = binary.BigEndian.AppendUint64(w.B, uint64(v))
	}
}

func (w *W) Str(tag byte, s string) {
	if len(s) <= 255 {
		w.head(tag, 6)
		w.B = append(w.B, byte(len(s)))
	} else {
		w.head(tag, 7)
		w.B = binary.BigEndian.AppendUint32(w.B, uint32(len(s)))
	}
	w.B = append(w.B, s...)
}

func (w *W) Bytes(tag byte, b []byte) {
	w.head(tag, 13)
	w.head(0, 0)
	w.Int(0, int64(len(b)))
	w.B = append(w.B, b...)
}

func (w *W) StrMap(tag byte, m map[string]string) {
	w.head(tag, 8)
	w.Int(0, int64(len(m)))
	ks := make([]string, 0, len(m))
	for k := range m {
		ks = append(ks, k)
	}
	sort.Strings(ks)
	for _, k := range ks {
		w.Str(0, k)
		w.Str(1, m[k])
	}
}

// BytesMap writes map<string, vector<byte>> (a TUP attribute set).
func (w *W) BytesMap(tag byte, m map[string][]byte) {
	w.head(tag, 8)
	w.Int(0, int64(len(m)))
	ks := make([]string, 0, len(m))
	for k := range m {
		ks = append(ks, k)
	}
	sort.Strings(ks)
	for _, k := range ks {
		w.Str(0, k)
		w.Bytes(1, m[k])
	}
}

// ReadBytesMap decodes a buffer holding one map<string, vector<byte>> at tag 0.
func ReadBytesMap(b []byte) (map[string][]byte, error) {
	r := &R{B: b}
	_, ty, err := r.head()
	if err != nil {
		return nil, err
	}
	if ty != 8 {
		return nil, fmt.Errorf("tnet: attribute set is wire type %d", ty)
	}
	_, t2, err := r.head()
	if err != nil {
		return nil, err
	}
	n, err := r.intBody(t2)
	if err != nil {
		return nil, err
	}
	out := map[string][]byte{}
	for i := int64(0); i < n; i++ {
		_, kt, err := r.head()
		if err != nil {
			return nil, err
		}
		k, err := r.strBody(kt)
		if err != nil {
			return nil, err
		}
		f, err := r.field()
		if err != nil {
			return nil, err
		}
		if f.Type != 13 {
			return nil, fmt.Errorf("tnet: attribute value is wire type %d", f.Type)
		}
		out[k] = f.Raw
	}
	return out, nil
}

// ReadStringField decodes a buffer holding one string field and returns it.
func ReadStringField(b []byte) (tag byte, s string, err error) {
	r := &R{B: b}
	f, err := r.field()
	if err != nil {
		return 0, "", err
	}
	if f.Type != 6 && f.Type != 7 {
		return f.Tag, "", fmt.Errorf("tnet: wire type %d is not a string", f.Type)
	}
	return f.Tag, f.Str, nil
}

// ---- reader -----------------------------------------------------------------

type R struct {
	B []byte
	P int
}

var errShort = errors.New("tnet: short buffer")

func (r *R) need(n int) error {
	if n < 0 || r.P+n > len(r.B) {
		return errShort
	}
	return nil
}

func (r *R) head() (tag byte, ty byte, err error) {
	if err = r.need(1); err != nil {
		return
	}
	b := r.B[r.P]
	r.P++
	ty = b & 0x0F
	tag = b >> 4
	if tag == 15 {
		if err = r.need(1); err != nil {
			return
		}
		tag = r.B[r.P]
		r.P++
	}
	return
}

func (r *R) intBody(ty byte) (int64, error) {
	switch ty {
	case 12:
		return 0, nil
	case 0:
		if err := r.need(1); err != nil {
			return 0, err
		}
		v := int64(int8(r.B[r.P]))
		r.P++
		return v, nil
	case 1:
		if err := r.need(2); err != nil {
			return 0, err
		}
		v := int64(int16(binary.BigEndian.Uint16(r.B[r.P:])))
		r.P += 2
		return v, nil
	case 2:
		if err := r.need(4); err != nil {
			return 0, err
		}
		v := int64(int32(binary.BigEndian.Uint32(r.B[r.P:])))
		r.P += 4
		return v, nil
	case 3:
		if err := r.need(8); err != nil {
			return 0, err
		}
		v := int64(binary.BigEndian.Uint64(r.B[r.P:]))
		r.P += 8
		return v, nil
	}
	return 0, fmt.Errorf("tnet: wire type %d is not an integer", ty)
}

func (r *R) strBody(ty byte) (string, error) {
	var n int
	switch ty {
	case 6:
		if err := r.need(1); err != nil {
			return "", err
		}
		n = int(r.B[r.P])
		r.P++
	case 7:
		if err := r.need(4); err != nil {
			return "", err
		}
		n = int(int32(binary.BigEndian.Uint32(r.B[r.P:])))
		r.P += 4
	default:
		return "", fmt.Errorf("tnet: wire type %d is not a string", ty)
	}
	if err := r.need(n); err != nil {
		return "", err
	}
	s := string(r.B[r.P : r.P+n])
	r.P += n
	return s, nil
}

// Field is one decoded top-level field.
type Field struct {
	Tag  byte
	Type byte
	Int  int64
	Str  string
	Raw  []byte
	Map  map[string]string
}

func (r *R) field() (Field, error) {
	tag, ty, err := r.head()
	if err != nil {
		return Field{}, err
	}
	f := Field{Tag: tag, Type: ty}
	switch ty {
	case 0, 1, 2, 3, 12:
		f.Int, err = r.intBody(ty)
	case 6, 7:
		f.Str, err = r.strBody(ty)
	case 13:
		_, t2, e := r.head()
		if e != nil {
			return f, e
		}
		if t2 != 0 {
			return f, errors.New("tnet: simple list of non-bytes")
		}
		_, t3, e := r.head()
		if e != nil {
			return f, e
		}
		n, e := r.intBody(t3)
		if e != nil {
			return f, e
		}
		if e := r.need(int(n)); e != nil {
			return f, e
		}
		f.Raw = append([]byte{}, r.B[r.P:r.P+int(n)]...)
		r.P += int(n)
	case 8:
		_, t2, e := r.head()
		if e != nil {
			return f, e
		}
		n, e := r.intBody(t2)
		if e != nil {
			return f, e
		}
		f.Map = map[string]string{}
		for i := int64(0); i < n; i++ {
			_, kt, e := r.head()
			if e != nil {
				return f, e
			}
			k, e := r.strBody(kt)
			if e != nil {
				return f, e
			}
			_, vt, e := r.head()
			if e != nil {
				return f, e
			}
			v, e := r.strBody(vt)
			if e != nil {
				return f, e
			}
			f.Map[k] = v
		}
	default:
		err = fmt.Errorf("tnet: unsupported wire type %d at tag %d", ty, tag)
	}
	return f, err
}

// Fields decodes all top-level fields of a packet body.
func Fields(b []byte) (map[byte]Field, []byte, error) {
	r := &R{B: b}
	out := map[byte]Field{}
	var order []byte
	for r.P < len(r.B) {
		f, err := r.field()
		if err != nil {
			return out, order, err
		}
		if _, dup := out[f.Tag]; dup {
			return out, order, fmt.Errorf("tnet: duplicate tag %d", f.Tag)
		}
		out[f.Tag] = f
		order = append(order, f.Tag)
	}
	return out, order, nil
}

// ---- packets ------------------------------------------------------------------

type Request struct {
	Version    int16
	PacketType int8
	MsgType    int32
	ID         int32
	Servant    string
	Func       string
	Buffer     []byte
	Timeout    int32
	Context    map[string]string
	Status     map[string]string
}

type Response struct {
	Version    int16
	PacketType int8
	ID         int32
	MsgType    int32
	Ret        int32
	Buffer     []byte
	Status     map[string]string
	ResultDesc string
	Context    map[string]string
}

// Frame prepends the 4-byte length.
func Frame(body []byte) []byte {
	out := make([]byte, 4, 4+len(body))
	binary.BigEndian.PutUint32(out, uint32(4+len(body)))
	return append(out, body...)
}

func (q *Request) Encode() []byte {
	w := &W{}
	w.Int(1, int64(q.Version))
	w.Int(2, int64(q.PacketType))
	w.Int(3, int64(q.MsgType))
	w.Int(4, int64(q.ID))
	w.Str(5, q.Servant)
	w.Str(6, q.Func)
	w.Bytes(7, q.Buffer)
	w.Int(8, int64(q.Timeout))
	w.StrMap(9, q.Context)
	w.StrMap(10, q.Status)
	return Frame(w.B)
}

func DecodeRequest(frame []byte) (*Request, error) {
	if len(frame) < 4 {
		return nil, errShort
	}
	fs, _, err := Fields(frame[4:])
	if err != nil {
		return nil, err
	}
	q := &Request{Version: int16(fs[1].Int), PacketType: int8(fs[2].Int), MsgType: int32(fs[3].Int), ID: int32(fs[4].Int),
		Servant: fs[5].Str, Func: fs[6].Str, Buffer: fs[7].Raw, Timeout: int32(fs[8].Int), Context: fs[9].Map, Status: fs[10].Map}
	for _, t := range []byte{1, 2, 3, 4, 5, 6, 7, 8, 9, 10} {
		if _, ok := fs[t]; !ok {
			return q, fmt.Errorf("tnet: request lacks required tag %d", t)
		}
	}
	return q, nil
}

func (p *Response) Encode() []byte {
	w := &W{}
	w.Int(1, int64(p.Version))
	w.Int(2, int64(p.PacketType))
	w.Int(3, int64(p.ID))
	w.Int(4, int64(p.MsgType))
	w.Int(5, int64(p.Ret))
	w.Bytes(6, p.Buffer)
	w.StrMap(7, p.Status)
	if p.ResultDesc != "" {
		w.Str(8, p.ResultDesc)
	}
	if len(p.Context) > 0 {
		w.StrMap(9, p.Context)
	}
	return Frame(w.B)
}

func DecodeResponse(frame []byte) (*Response, error) {
	if len(frame) < 4 {
		return nil, errShort
	}
	fs, _, err := Fields(frame[4:])
	if err != nil {
		return nil, err
	}
	p := &Response{Version: int16(fs[1].Int), PacketType: int8(fs[2].Int), ID: int32(fs[3].Int), MsgType: int32(fs[4].Int),
		Ret: int32(fs[5].Int), Buffer: fs[6].Raw, Status: fs[7].Map, ResultDesc: fs[8].Str, Context: fs[9].Map}
	for _, t := range []byte{1, 2, 3, 4, 5, 6, 7} {
		if _, ok := fs[t]; !ok {
			return p, fmt.Errorf("tnet: response lacks required tag %d", t)
		}
	}
	return p, nil
}

// SplitFrames cuts complete frames off the front of buf.
func SplitFrames(buf []byte) (frames [][]byte, rest []byte) {
	for len(buf) >= 4 {
		n := int(binary.BigEndian.Uint32(buf))
		if n < 4 || n > len(buf) {
			break
		}
		frames = append(frames, append([]byte{}, buf[:n]...))
		buf = buf[n:]
	}
	return frames, buf
}
