#!/usr/bin/env python3
"""Regenerates MANIFEST.json from the table below (keeps it valid at all times)."""
import json, os
ROOT = os.path.dirname(os.path.abspath(__file__))

CHECKS = {
 "C19": dict(engine="govm", technique="stateless model checking: exhaustive interleaving exploration of the real gpool package under a controlled scheduler (happens-before fingerprint pruning)",
             text="Every interleaving (unbounded for <=5 goroutines, pre-emption bound 2/3 above) of submitters, dispatcher, workers and Release on the real gpool code is executed; each execution is checked for exactly-once, parallelism bound, deadlock and leftover goroutines. Listener part: the real TarsServer (TCP and UDP) with MaxInvoke 1-2 and N+2 slow requests under deviation-bounded schedules; peak handler concurrency and exactly-once from the servant log.",
             note="Scheduling points at channel operations only (gpool uses nothing else); Go's FIFO waiter order not assumed; fingerprint pruning assumes data-race freedom.", ref="§5 C19"),
 "C20": dict(engine="govm", technique="stateless model checking: exhaustive interleaving + select-outcome exploration of the real rogger flush path under a controlled scheduler with virtual time",
             text="All interleavings of 1-3 logging goroutines, the background flusher and FlushLogger, including both outcomes of every select with several ready cases, on the real rogger code; every entry logged before the flush must be written exactly once, in order, as one write, before FlushLogger returns. Panic part: tars.CheckPanic on the instrumented tars tree with 1-3 overlapping panics until os.Exit; entries logged before the first panic must be written at exit.",
             note="Virtual clock; interleavings at channel/mutex/context operations of the instrumented package.", ref="§5 C20"),
}
CHECKS["C07"] = dict(engine="govm", technique="stateless model checking: every partition of the byte stream (environment choices) x schedules within a deviation bound, on the real receive loops over an in-memory TCP",
             text="The real tcpHandler.recv and connection.recv are run on an in-memory TCP connection; every composition of 1-3 packet streams into chunks, illegal lengths at every position, max-length boundaries, chunk menus around the 4096-byte read buffer, worker pool and a parallel connection; deliveries compared with what was sent, connection state after illegal lengths. Also: a client connection that ends inside a packet followed by a reconnect of the same client, and packets beyond 64 KiB followed by small ones in the same read.",
             note="vnet models TCP as seen through net.Conn (ordered reliable stream, FIN, deadlines); partitions exact because the peer waits for the reader to drain; schedules: default + all with <=1/2 deviations for selected partitions; no fingerprint pruning.", ref="§5 C07")
CHECKS["C08"] = dict(engine="govm", technique="stateless model checking: deviation-bounded exhaustive schedule exploration (3 default policies) x scripted-peer behaviours of the real client call path over an in-memory network with virtual time",
             text="2-3 concurrent TarsInvoke callers on one proxy against a scripted server that answers in every order, duplicates replies, injects unknown-id / push / one-way packets and places a reply before/at/after the deadline; all schedules within 1 deviation un-pruned and 2-3 deviations with fingerprint pruning, from three default scheduling policies; plus all interleavings (unbounded) of 2-3 concurrent request-id generators around the wrap-around values. Also: callers with a proxy object each for the same remote object, and a reply cut by a close while the next caller reconnects.",
             note="Virtual clock (exact deadlines); scripted server uses an independent mini-codec; pruned runs assume data-race freedom.", ref="§5 C08")
CHECKS["C17"] = dict(engine="enum", technique="bounded-exhaustive enumeration of configuration documents (all line sequences / byte strings up to a bound) against an independent line-based reference reader",
             text="Every well-nested document of <=7/8 lines over the line alphabet, every framing variant, every sequence of line forms, every malformed sequence of <=5 lines and every byte string of <=4/6 bytes over 12 byte classes is parsed by the real conf package and compared node by node (keys, values, domain/key/line listings, typed getters) with a reference reader; malformed input must give an error or a complete representation.",
             note="Reference reader is the specification as the property states it (trim, first '=', '#', later duplicate wins); XML-specific corner cases (entities, namespaces, attributes) are not judged.", ref="§5 C17")
CHECKS["C18"] = dict(engine="enum", technique="bounded-exhaustive enumeration of endpoint descriptions (full product of option menus, all orderings of <=4/5 options, spacings, prefixes, all short strings) against a reference parser and the registry round trip",
             text="Every endpoint of the option-menu product in canonical and reversed order, every ordered selection of <=4 options x spacings, every prefix, every string of <=5/6 symbols over a 12-symbol alphabet, every ':'-joined address list through the real newEndpointManager, and the Endpoint->EndpointF->Endpoint round trip over the field-menu product; fields, defaults, weight normalisation, key equality, no panic.",
             note="Reference parser written from the documented option syntax; behaviours of the flag package outside that grammar (-h=x, base prefixes) are not judged.", ref="§5 C18")
CHECKS["C09"] = dict(engine="govm", level="fault_enumeration", technique="fault enumeration + stateless model checking: every scripted peer behaviour x deadline source x caller count, each under all schedules within the deviation bound, on the real client call path with virtual time",
             text="Peer behaviours (answers, silent, late, closes at three points, garbage length, garbage body, refuses, black-holed dial, zero send window) x deadline source (configured, per-call, context) x 1-4 callers; every call must return by deadline (+ dial bound + one wheel tick) on the virtual clock, and after 3 s of quiescence the pending-reply table, queue counters and delivery goroutines must be gone. Also: a reply at deadline -1/0/+1/+50 ms followed by further calls (their payloads compared; <=2-3 deviations inside the 20 ms around the deadline), and several proxy objects for one remote object with per-proxy counters.",
             note="Exact virtual-time oracle; schedules: default + <=1 deviation from three default policies (2 with pruning in thorough).", ref="§5 C09")
CHECKS["C11"] = dict(engine="govm", technique="stateless model checking: close point x delay menu x deviation-bounded exhaustive schedules (3 default policies) of the real client transport against a scripted closing server, virtual time",
             text="Scripted server answers everything and closes (FIN / reconnect notice + FIN / RST) after response 1 or 2; the next call(s) are issued 1/999/1000/1001/1500 ms after the close, sequentially or from two callers; all schedules within 1 deviation (2 with pruning in thorough) from three default policies. Post-close calls must succeed, nothing may be written to a connection whose receiver saw EOF, the newest healthy connection must not be flagged closed, nothing may be stranded in the send queues. Also idle closes exactly at / beside the client sender's 1 s poll with <=2-3 deviations within 5 ms of the close.",
             note="Calls at the very instant of the close are out of the property's scope and not judged; vnet log supplies 'who wrote what when'.", ref="§5 C11")
CHECKS["C10"] = dict(engine="govm", technique="explicit matrix enumeration through the real Protocol.Invoke + stateless model checking of the real TarsServer (TCP and UDP) under deviation-bounded schedules, virtual time",
             text="(a) every cell of version{TARS,TUP,JSON} x packet type x function{ok,error,*tars.Error,ping,unknown,void} x own-timeout{none,ample,elapsed in queue} x ids through the real Protocol.Invoke with the real generated AdminF dispatcher; (b) the real TarsServer over in-memory TCP and UDP, pool 0/1/2, handle timeout 0/T, handler durations 0/T-e/T/T+e, 2-4 pipelined requests on 1-2 connections, all schedules within 2 (3) deviations from three default policies. Responses decoded by an independent codec: exactly one per two-way request, none per one-way, id/version/packet type echoed, error code and message, queue-timeout code, timeout error for over-long handlers. Also requests ending exactly on the 4096-byte read buffer and short caller timeouts at several phases of the wall-clock second.",
             note="TUP responses have no iRet member: the result code is looked for in the status map (STATUS_RESULT_CODE/STATUS_RESULT_DESC).", ref="§5 C10")
CHECKS["C02"] = dict(engine="enum", technique="bounded-exhaustive enumeration of (type, tag, value) triples (complete for 8/16-bit types x 256 tags, all 2^32 float32 patterns in thorough, boundary lattices otherwise) against an independent reference encoder",
             text="Every value of bool/int8/uint8/int16/uint16 x all 256 tags, integer/float/string lattices x 256 tags, and every narrower encoding read by every wider reader: bytes written by codec.Buffer must equal the reference encoder, the value read back must be bit-identical, the reader must stop exactly at the end of the field (in-package offset accessor + sentinel field).",
             note="Reference encoder written from the wire rules (DESIGN Appendix B), independent of codec.go; 64-bit and string spaces covered by lattices, not exhausted.", ref="§5 C02")
CHECKS["C06"] = dict(engine="enum", technique="bounded-exhaustive mutation enumeration (every prefix, every length inflation, every inadmissible wire-type substitution at every nesting level) of reference-encoded baselines, judged against an independent strict schema-directed decoder",
             text="For every baseline encoding (24 framework structs as struct and as block, primitive fields, byte-vector fields, TUP attribute sets; all-default / all-non-default / <=k-member deviations): every proper prefix, every embedded length inflated beyond the remaining bytes, every field replaced by each well-formed field of an inadmissible wire type. The implementation must fail or return exactly the value of the complete fields present.",
             note="Strict reference decoder (verif/ref) is the oracle; lengths that would make TarsGo allocate more than ~2 MB are left to C05.", ref="§5 C06")
CHECKS["C16"] = dict(engine="enum", technique="bounded-exhaustive program enumeration: generated IDL corpus through the real tars2go + go build + static conformance; every token/byte-level mutation and every short token string through the real lexer/parser/generator under a deterministic token budget; regeneration diff of the checked-in bindings",
             text="(a) corpus of all member kinds x require/optional x default x tag classes, containers to depth 2, arrays, enums/consts/interfaces/includes: tars2go must exit 0, the output must compile and match the schema; (b) every byte/token prefix, single-token deletion/duplication/replacement/insertion of small files, all token strings <=3(4) in five contexts, all byte strings <=2 and character-class strings <=4: the tool must terminate with a diagnostic (token budget detects hangs deterministically), cross-checked on the real binary; (c) the framework's own bindings regenerated and compared.",
             note="Dynamic codec/call behaviour of the generated code is the business of C01/C03/C04; constructs the tool rejects by design with a diagnostic are not generated as valid.", ref="§5 C16")
CHECKS["C12"] = dict(engine="govm", technique="stateless model checking: shutdown instant x pool size x request pattern, each under deviation-bounded exhaustive schedules (3 default policies) of the real TarsServer/tcpHandler/gpool over an in-memory network with virtual time",
             text="Real TarsServer + tcpHandler + gpool + Protocol + generated dispatcher; 1-2 scripted clients, 1-3 requests in flight or queued, handler durations 0/300/700/3000 ms, pool 0/1/2, Shutdown at 0/5/10/100 ms with ample or too-short context; all schedules within 2 deviations (3-4 in thorough). Every request the server read (network log) must be answered before its connection closes, accepted clients must get the reconnect notice, Shutdown must return at drain or context expiry, no receive loop may stay blocked on the job queue.",
             note="'already read' is taken from the vnet log; clients never close first; Shutdown may lag the drain by its 500 ms poll.", ref="§5 C12")
CHECKS["C13"] = dict(engine="enum", technique="explicit-state model checking: BFS over Refresh/Add/Remove/Select histories replayed on fresh real selector objects, deduplicated by a digest of every field of the object, all random draws enumerated",
             text="For each of the four selectors x weight switch x weight vectors over {-200,-1,0,1,2,10,100,101,250}^3 x weight types: BFS to depth 4 (6) over Refresh (all ordered lists of 3-4 hosts), Add, Remove, Select with every start position / every rand draw enumerated; membership, no panic, error iff nothing eligible, strict rotation windows, exact weighted shares per cycle.",
             note="Sequential histories only in this revision; the concurrent selector/updater interleavings are explored by the govm engine in the C15/C01 scenarios and the race pass. Canonical key = digest of all fields (cursor mod cycle length), read by in-package accessors.", ref="§5 C13")
CHECKS["C14"] = dict(engine="enum", technique="explicit-state model checking: BFS over Add/Remove/Refresh histories on the real hash selectors, canonical state = member set / ordered list, routing tables compared with an independent Ketama ring and across histories",
             text="Consistent hash (Ketama and default hash, weighted and unweighted) and mod-hash (plain, static weights), universe of 4-5 hosts, depth 5 (7): routing table over ~5300 probe codes (every ring point +-1, 0, 2^32-1, sweep) must equal an independently computed ring, be identical for all histories reaching the same set, and change only for codes of the removed / onto the added endpoint; mod-hash slot rule.",
             note="Ring-point collisions between hosts are excluded at start; the end-to-end hashed call is exercised in the C15 scenarios.", ref="§5 C14")
CHECKS["C15"] = dict(engine="govm", technique="explicit-state model checking over event histories: every history is replayed on a fresh real endpoint manager inside one controlled execution (virtual clock, in-memory servers, all random draws enumerated); seeds = all prefixes of long scripted histories, neighbourhoods enumerated to depth 2 (3); long histories additionally under all schedules with one deviation",
             text="Events: round-robin call, consistent-hash call, server i healthy/refusing/silent, clock +1/5/30/60 s (the 1 s status checker runs by itself). Per transition: no endpoint without failed calls leaves rotation, none with fewer than two failures since (re)instatement, 5 consecutive failures over 5 s put it out after the next check while another is active, probes at most once per 30 s, reinstated on the first successful probe and kept blocked after a failed one, calls still attempted when everything is blocked, hashed calls stable while the set is unchanged.",
             note="'In rotation' read through an in-package accessor and cross-checked with where calls go; canonical keys (distinct outcomes) are computed from the real objects.", ref="§5 C15")
CHECKS["C01"] = dict(engine="govm", technique="bounded-exhaustive enumeration of calls (every corpus interface function x 1-deviation value products x context/status menus x outcomes x filter registrations) executed end to end on the real client and server stacks under the controlled scheduler, plus deviation-bounded exhaustive schedules for concurrent callers",
             text="The working-tree tars2go generates proxies and dispatchers for every interface function of the IDL corpus (169 functions quick); generated servants forward to a scripted handler. Real proxy -> ServantProxy -> AdapterProxy -> TarsClient -> in-memory TCP -> TarsServer -> tcpHandler -> Protocol -> generated Dispatch. Per function: every parameter / out parameter / return position over its value lattice, reused out variables, one-way; request/response context and status menus; plain and *tars.Error outcomes; all 8x8 client x server filter registrations with exact filter-order logs; 2-3 concurrent callers sharing a proxy under all schedules within 1-3 deviations (3 default policies).",
             note="Values are compared through an independent value model (verif/ref) with nil = empty containers and bit-exact floats; the deviation-bounded product covers one varied position at a time.", ref="§5 C01")
CHECKS["C03"] = dict(engine="enum", technique="bounded-exhaustive enumeration of (struct, value) pairs over every struct of the framework bindings and of the generated IDL corpus (k-deviation products over value lattices), judged by an independent strict schema-directed decoder and wire-conformance walk",
             text="24 framework structs + 653 (3116) corpus structs emitted by the working-tree tars2go; both baselines, every <=2 (3) member deviation over a small lattice and every single-member deviation over the full lattice: WriteTo/WriteBlock bytes must parse strictly, decode under the schema to the value, use admissible wire types, ascending unique tags, narrowest integers, required members present, and ReadFrom/ReadBlock into a fresh struct must return the value (nil = empty, floats by bits).",
             note="Schemas come from the IDL (own reader / corpus metadata), never from the generated Go; which optionals are elided is not prescribed.", ref="§5 C03")
CHECKS["C04"] = dict(engine="enum", technique="bounded-exhaustive mutation enumeration: every insertion (and pair) of a well-formed unknown field at every admissible position and nesting level, every member deletion, every ordered pair of encodings decoded into one reused value, judged against the reference decoder",
             text="53 well-formed field shapes (all wire types, nested to depth 4, 255/256-element containers, extended tags, StructEnd-looking payloads) inserted at every gap of the top-level body and of nested structs/containers with every free tag class, singly and in pairs; exact consumption checked by a sentinel after ReadBlock; deletions of every optional/required member; reuse: decode A then B into the same value for all ordered baseline pairs.",
             note="Reader position is read by reflection (codec.Reader has no accessor); arrays of structs without element defaults are accepted either way.", ref="§5 C04")
CHECKS["C05"] = dict(engine="enum", level="fault_enumeration", technique="bounded-exhaustive enumeration of hostile inputs (all short byte strings, every single/double byte mutation of valid encodings, every embedded length replaced by hostile constants, nesting bombs up to the maximum packet size) on every network-reachable decode entry point, executed in resource-limited worker subprocesses that announce each case",
             text="75 decode entry points (ReadFrom/ReadBlock of all framework structs and generated array structs, TUP, generated Dispatch in TARS/TUP/JSON, Protocol.Invoke/InvokeTimeout with TCP frames and UDP datagrams of any length, client ResponseUnpack and AdapterProxy.Recv) x 1.9 M (42 M) inputs; workers run under ulimit -v with the default 1 GB stack; oracle: no panic, no process death (stack overflow, OOM, os.Exit), termination, bytes allocated <= 64 x input + 64 KiB.",
             note="Termination is a generous wall-clock backstop confirmed by an isolated re-run; OOM verdicts hold under a 4 GiB address-space limit; recovered panics inside the client receive path are counted but not violations.", ref="§5a C05")
NOT_YET = {}
ALL = ["C%02d" % i for i in range(1, 21)]

def main():
    checks = []
    for pid in ALL:
        if pid not in CHECKS:
            continue
        c = CHECKS[pid]
        checks.append({
            "property_id": pid,
            "quick_cmd": "./check %s quick" % pid,
            "thorough_cmd": "./check %s thorough" % pid,
            "evidence_file": "/verif/evidence/%s.json" % pid,
            "replay_cmd_template": "./check %s quick --replay {path}" % pid,
            "engine": c["engine"],
            "level_claimed": {"category": c.get("level", "model_checking"), "text": c["text"], "design_ref": c["ref"]},
            "level_note": c["note"],
            "technique": c["technique"],
        })
    na = [{"property_id": p, "reason": NOT_YET.get(p, "check not built yet in this revision (work in progress; see DESIGN.md §8 build order)")}
          for p in ALL if p not in CHECKS]
    m = {
        "version": 1,
        "setup_cmd": "./setup.sh",
        "hooks": {
            "guard": "verif",
            "enable": "go build -tags verif -overlay <generated overlay.json> (instrumented copies + harness files are injected by overlay; /repo contains no hook code)",
            "baseline_off_cmd": "for m in . contrib/gin contrib/log contrib/middleware/opentelemetry contrib/middleware/zipkintracing; do (cd /repo/$m && GOFLAGS=-mod=mod go test -json -vet=off -count=1 -timeout 25m ./...); done",
            "source_commits": [],
            "add_only": True,
        },
        "engines": [
            {"name": "govm", "path": "/verif/vm", "serves_properties": [p for p in ALL if p in CHECKS and CHECKS[p]["engine"] == "govm"],
             "kind_free_text": "own stateless model checker for Go: source instrumenter (/verif/instr) + cooperative scheduler with virtual time, deviation-bounded DFS, happens-before fingerprint pruning"},
            {"name": "enum", "path": "/verif/ref", "serves_properties": [p for p in ALL if p in CHECKS and CHECKS[p]["engine"] == "enum"],
             "kind_free_text": "bounded-exhaustive enumeration / explicit-state BFS against independent reference models"},
        ],
        "checks": checks,
        "not_applicable": na,
        "notes": "See DESIGN.md. known_findings.json lists recorded and fixed defects.",
    }
    with open(os.path.join(ROOT, "MANIFEST.json"), "w") as f:
        json.dump(m, f, indent=1)
        f.write("\n")

if __name__ == "__main__":
    main()
