package vm

import (
	"reflect"
	"runtime"
	"unsafe"
)

// chanState is the scheduler-side content of one channel.  The real channel
// value is used only as an identity (and to pin the address).
type chanState struct {
	pin    any
	cap    int
	buf    []any
	closed bool
	h      uint64
}

func chanKey[T any](c chan T) uintptr {
	return uintptr(*(*unsafe.Pointer)(unsafe.Pointer(&c)))
}

func stateOf(key uintptr, pin any, capacity int) *chanState {
	if key == 0 {
		return nil
	}
	cs := S.chans[key]
	if cs == nil {
		cs = &chanState{pin: pin, cap: capacity}
		S.chans[key] = cs
	}
	return cs
}

func csSend[T any](c chan<- T) *chanState {
	k := uintptr(*(*unsafe.Pointer)(unsafe.Pointer(&c)))
	return stateOf(k, c, cap(c))
}

func csRecv[T any](c <-chan T) *chanState {
	k := uintptr(*(*unsafe.Pointer)(unsafe.Pointer(&c)))
	return stateOf(k, c, cap(c))
}

// --- readiness -------------------------------------------------------------

// a parked receiver (plain recv or select with a recv case on cs) other than g
func (s *Sched) parkedRecv(cs *chanState, not *G) (*G, int) {
	for _, g := range s.gs {
		if g == not || g.done || g.pend == nil || g.pend.completed {
			continue
		}
		o := g.pend
		if o.ch == cs && o.dir == 2 {
			return g, -1
		}
		for i := range o.cases {
			if o.cases[i].cs == cs && o.cases[i].dir == 2 {
				return g, i
			}
		}
	}
	return nil, 0
}

func (s *Sched) parkedSend(cs *chanState, not *G) (*G, int) {
	for _, g := range s.gs {
		if g == not || g.done || g.pend == nil || g.pend.completed {
			continue
		}
		o := g.pend
		if o.ch == cs && o.dir == 1 {
			return g, -1
		}
		for i := range o.cases {
			if o.cases[i].cs == cs && o.cases[i].dir == 1 {
				return g, i
			}
		}
	}
	return nil, 0
}

func (s *Sched) allParked(cs *chanState, dir int, not *G) (gs []*G, idx []int) {
	for _, g := range s.gs {
		if g == not || g.done || g.pend == nil || g.pend.completed {
			continue
		}
		o := g.pend
		if o.ch == cs && o.dir == dir {
			gs = append(gs, g)
			idx = append(idx, -1)
			continue
		}
		for i := range o.cases {
			if o.cases[i].cs == cs && o.cases[i].dir == dir {
				gs = append(gs, g)
				idx = append(idx, i)
				break
			}
		}
	}
	return
}

func (s *Sched) sendReady(cs *chanState, self *G) bool {
	if cs == nil {
		return false
	}
	if cs.closed {
		return true // will panic
	}
	if len(cs.buf) < cs.cap {
		return true
	}
	if cs.cap == 0 {
		g, _ := s.parkedRecv(cs, self)
		return g != nil
	}
	return false
}

func (s *Sched) recvReady(cs *chanState, self *G) bool {
	if cs == nil {
		return false
	}
	if len(cs.buf) > 0 || cs.closed {
		return true
	}
	if cs.cap == 0 {
		g, _ := s.parkedSend(cs, self)
		return g != nil
	}
	return false
}

// --- performing ------------------------------------------------------------

// doSend is executed by the scheduled goroutine g.
// rendezvousHash gives sender, receiver and channel the same new hashes no
// matter which side was scheduled to perform the hand-over.
func rendezvousHash(cs *chanState, sender, receiver *G, passiveSel int) {
	n := mix(mix(mix(cs.h, sender.h), receiver.h), 0x5e)
	cs.h = n
	sender.h = mix(n, 1)
	receiver.h = mix(n, 2)
}

func (s *Sched) doSend(cs *chanState, v any) {
	g := s.cur
	if cs.closed {
		panic("send on closed channel")
	}
	if cs.cap != 0 {
		Touch(&cs.h, 1)
	}
	{
		// cap 0: hand over directly to a parked receiver
		if cs.cap == 0 {
			gs, idx := s.allParked(cs, 2, g)
			if len(gs) == 0 {
				panic("vm: internal: unbuffered send scheduled without receiver")
			}
			k := 0
			if len(gs) > 1 {
				k = s.choose(len(gs), 0, 'c')
				if k < 0 {
					<-g.wake
					runtime.Goexit()
				}
			}
			p := gs[k]
			p.pend.completed = true
			p.rval, p.rok, p.rsel = v, true, idx[k]
			rendezvousHash(cs, g, p, idx[k])
			return
		}
	}
	cs.buf = append(cs.buf, v)
}

func (s *Sched) doRecv(cs *chanState) (any, bool) {
	g := s.cur
	if cs.cap != 0 || cs.closed {
		Touch(&cs.h, 2)
	}
	if len(cs.buf) > 0 {
		v := cs.buf[0]
		cs.buf = cs.buf[1:]
		return v, true
	}
	if cs.closed {
		return nil, false
	}
	// rendez-vous with a parked sender
	gs, idx := s.allParked(cs, 1, g)
	if len(gs) == 0 {
		panic("vm: internal: unbuffered recv scheduled without sender")
	}
	k := 0
	if len(gs) > 1 {
		k = s.choose(len(gs), 0, 'c')
		if k < 0 {
			<-g.wake
			runtime.Goexit()
		}
	}
	p := gs[k]
	var v any
	if idx[k] < 0 {
		v = p.pend.sval
	} else {
		v = p.pend.cases[idx[k]].sval
	}
	p.pend.completed = true
	p.rsel = idx[k]
	rendezvousHash(cs, p, g, idx[k])
	return v, true
}

// --- public operations -----------------------------------------------------

// SendFn returns a function performing ch <- v under the scheduler.
func SendFn[T any](c chan<- T) func(T) {
	return func(v T) { Send(c, v) }
}

func Send[T any](c chan<- T, v T) {
	if !S.active {
		c <- v
		return
	}
	s := S
	cs := csSend(c)
	g := s.cur
	o := &op{kind: "send", ch: cs, dir: 1, sval: any(v)}
	o.enabled = func() bool { return s.sendReady(cs, g) }
	if cs == nil {
		o.kind = "send(nil chan)"
	}
	s.point(o)
	if o.completed {
		return // a receiver took the value
	}
	s.doSend(cs, any(v))
}

func conv[T any](v any) T {
	if v == nil {
		var z T
		return z
	}
	return v.(T)
}

func Recv[T any](c <-chan T) T {
	v, _ := Recv2(c)
	return v
}

func Recv2[T any](c <-chan T) (T, bool) {
	if !S.active {
		v, ok := <-c
		return v, ok
	}
	s := S
	cs := csRecv(c)
	g := s.cur
	o := &op{kind: "recv", ch: cs, dir: 2}
	o.enabled = func() bool { return s.recvReady(cs, g) }
	if cs == nil {
		o.kind = "recv(nil chan)"
	}
	s.point(o)
	if o.completed {
		return conv[T](g.rval), g.rok
	}
	v, ok := s.doRecv(cs)
	return conv[T](v), ok
}

func Close[T any](c chan<- T) {
	if !S.active {
		close(c)
		return
	}
	if c == nil {
		panic("close of nil channel")
	}
	cs := csSend(c)
	PointKind("close")
	if cs.closed {
		panic("close of closed channel")
	}
	Touch(&cs.h, 3)
	cs.closed = true
}

// Len is len(ch) for a channel of any direction.
func Len(c any) int {
	rv := reflect.ValueOf(c)
	if !S.active {
		return rv.Len()
	}
	if rv.IsNil() {
		return 0
	}
	cs := stateOf(rv.Pointer(), c, rv.Cap())
	Touch(&cs.h, 4)
	return len(cs.buf)
}

// --- select ----------------------------------------------------------------

// SelCase is one communication case of a select.
type SelCase struct {
	cs   *chanState
	dir  int
	sval any
}

func (c *SelCase) ready() bool {
	if c.cs == nil {
		return false
	}
	if c.dir == 1 {
		return S.sendReady(c.cs, selSelf)
	}
	return S.recvReady(c.cs, selSelf)
}

// selSelf is the goroutine whose select is being evaluated (so that it does
// not rendez-vous with itself).
var selSelf *G

// Case is implemented by *RecvK[T] and *SendK[T].
type Case interface{ selCase() SelCase }

type RecvK[T any] struct {
	c  <-chan T
	v  T
	ok bool
}

func (k *RecvK[T]) selCase() SelCase { return SelCase{cs: csRecv(k.c), dir: 2} }
func (k *RecvK[T]) Val() T           { return k.v }
func (k *RecvK[T]) Val2() (T, bool)  { return k.v, k.ok }

type SendK[T any] struct {
	c chan<- T
	v T
}

func (k *SendK[T]) selCase() SelCase { return SelCase{cs: csSend(k.c), dir: 1, sval: any(k.v)} }

func RecvCase[T any](c <-chan T) *RecvK[T] { return &RecvK[T]{c: c} }

// SendCaseFn(ch)(v): the element type is inferred from the channel alone.
func SendCaseFn[T any](c chan<- T) func(T) *SendK[T] {
	return func(v T) *SendK[T] { return &SendK[T]{c: c, v: v} }
}
func SendCase[T any](c chan<- T, v T) *SendK[T] { return &SendK[T]{c: c, v: v} }

type recvSetter interface{ set(v any, ok bool) }

func (k *RecvK[T]) set(v any, ok bool) { k.v, k.ok = conv[T](v), ok }

// Select performs a select statement; returns the index of the chosen case or
// -1 for default.
func Select(hasDefault bool, ks ...Case) int {
	if !S.active {
		return realSelect(hasDefault, ks)
	}
	s := S
	g := s.cur
	o := &op{kind: "select", hasDf: hasDefault}
	o.cases = make([]SelCase, len(ks))
	for i, k := range ks {
		o.cases[i] = k.selCase()
	}
	if len(ks) == 0 && !hasDefault {
		o.enabled = func() bool { return false }
		o.cases = nil
		o.kind = "select{}"
	}
	if o.cases != nil {
		wrapSelf(o, g)
	}
	s.point(o)
	if o.completed {
		i := g.rsel
		if o.cases[i].dir == 2 {
			ks[i].(recvSetter).set(g.rval, g.rok)
		}
		return i
	}
	var ready []int
	selSelf = g
	for i := range o.cases {
		if o.cases[i].ready() {
			ready = append(ready, i)
		}
	}
	selSelf = nil
	if len(ready) == 0 {
		if !hasDefault {
			panic("vm: internal: select scheduled with nothing ready")
		}
		TouchVal(0xD0)
		return -1
	}
	k := 0
	if len(ready) > 1 {
		k = s.choose(len(ready), 0, 'c')
		if k < 0 {
			<-g.wake
			runtime.Goexit()
		}
	}
	i := ready[k]
	c := o.cases[i]
	if c.dir == 1 {
		s.doSend(c.cs, c.sval)
	} else {
		v, ok := s.doRecv(c.cs)
		ks[i].(recvSetter).set(v, ok)
	}
	return i
}

// wrapSelf makes readiness checks of o's cases exclude g itself.
func wrapSelf(o *op, g *G) {
	if o.cases == nil {
		return
	}
	hasDf := o.hasDf
	cases := o.cases
	o.enabled = func() bool {
		if hasDf {
			return true
		}
		selSelf = g
		defer func() { selSelf = nil }()
		for i := range cases {
			if cases[i].ready() {
				return true
			}
		}
		return false
	}
}

func realSelect(hasDefault bool, ks []Case) int {
	panic("vm: select outside a controlled execution is not supported")
}
