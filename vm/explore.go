package vm

import (
	"fmt"
	"strings"
	"time"
)

// Scenario is one closed system to explore.
type Scenario struct {
	Name     string
	Reset    func()                 // outside the execution, before each run
	Main     func()                 // goroutine 0
	Check    func(r *Result) string // "" = fine, else a violation description (first line = signature)
	Outcome  func(r *Result) string // canonical observable outcome for distinct-outcome statistics
	MaxSteps int
}

// Options bound the exploration.
type Options struct {
	Bound       int       // max deviations (pre-emptions); <0: unbounded
	Prune       bool      // happens-before fingerprint pruning
	MaxExec     int64     // 0: unlimited
	Deadline    time.Time // zero: none
	StopAtFirst bool
	Policy      int   // default scheduling policy (PolicyOldestFirst, ...)
	StrictDev   bool  // forced switches to a non-default goroutine cost 1 too
	Prefix      []int // explore only below this prefix (sharding)
	PrefixCost  int
	// DevFrom/DevTo (virtual ns; both zero: no restriction): schedule and select alternatives are
	// taken only at points inside this window of virtual time; environment choices always.  The
	// explored space is then "all schedules with at most Bound deviations, all of them inside the
	// window" - a way to afford a deeper bound around one instant of a long execution.
	DevFrom, DevTo int64
	Stall          bool // StallDeviations
}

// Violation is a failed execution.
type Violation struct {
	Scenario string
	Msg      string
	Choices  []int
	Obs      []string
	Status   string
	PanicMsg string
	PanicStk string
}

// Stats summarise an exploration.
type Stats struct {
	Executions     int64
	Pruned         int64
	Points         int64
	MaxDepth       int
	States         int64 // distinct fingerprints
	Outcomes       map[string]int64
	Complete       bool // whole bounded space covered
	Bound          int
	StepLimited    int64
	Deadlocks      int64
	InfraErrs      []string
	SampleObs      []string
	Violations     []Violation
	ViolationCount int64
}

type frame struct {
	prefix []int
	cost   int
}

// Explore runs sc under every schedule within opt.
func Explore(sc *Scenario, opt Options) *Stats {
	st := &Stats{Outcomes: map[string]int64{}, Bound: opt.Bound, Complete: true}
	type ckey struct {
		fp uint64
	}
	FingerprintIgnoresRunning = opt.Bound < 0
	StrictDeviations = opt.StrictDev
	StallDeviations = opt.Stall
	DefaultPolicy = opt.Policy
	cache := map[uint64]int{} // fingerprint -> best remaining budget explored (+1)
	stack := []frame{{prefix: append([]int{}, opt.Prefix...), cost: opt.PrefixCost}}
	seenSig := map[string]bool{}
	endStates := map[uint64]struct{}{}
	for len(stack) > 0 {
		if opt.MaxExec > 0 && st.Executions >= opt.MaxExec {
			st.Complete = false
			break
		}
		if !opt.Deadline.IsZero() && time.Now().After(opt.Deadline) {
			st.Complete = false
			break
		}
		f := stack[len(stack)-1]
		stack = stack[:len(stack)-1]

		// cost accumulated along the running execution, for the prune callback
		var prune func(idx int, fp uint64, cost int) bool
		runCost := f.cost
		if opt.Prune {
			prune = func(idx int, fp uint64, cost int) bool {
				rem := 1 << 30
				if opt.Bound >= 0 {
					rem = opt.Bound - runCost
				}
				if best, ok := cache[fp]; ok && best >= rem+1 {
					return true
				}
				cache[fp] = rem + 1
				return false
			}
		}
		if sc.Reset != nil {
			sc.Reset()
		}
		r := RunOnce(sc.Main, f.prefix, sc.MaxSteps, prune)
		st.Executions++
		if st.Executions == 1 {
			st.SampleObs = append([]string{}, r.Obs...)
			if len(st.SampleObs) > 40 {
				st.SampleObs = st.SampleObs[:40]
			}
		}
		if r.Status == StPanic && strings.HasPrefix(r.PanicMsg, "vm:") {
			st.InfraErrs = append(st.InfraErrs, sc.Name+": "+r.PanicMsg+"\n"+r.PanicStk)
			st.Complete = false
			break
		}
		st.Points += int64(len(r.Trace))
		if len(endStates) < 4000000 {
			endStates[r.EndFP] = struct{}{}
		}
		if len(r.Trace) > st.MaxDepth {
			st.MaxDepth = len(r.Trace)
		}
		switch r.Status {
		case StPruned:
			st.Pruned++
		case StStepLimit:
			st.StepLimited++
		case StDeadlock:
			st.Deadlocks++
		}
		if r.Status != StPruned {
			if sc.Outcome != nil {
				st.Outcomes[sc.Outcome(r)]++
			} else {
				st.Outcomes[r.Status.String()+"|"+r.ObsString()]++
			}
			if sc.Check != nil {
				if msg := sc.Check(r); msg != "" {
					// a check may report several independent violations of one
					// execution: "MULTI\n" + violations joined by "\n@@\n"
					parts := []string{msg}
					if strings.HasPrefix(msg, "MULTI\n") {
						parts = strings.Split(msg[len("MULTI\n"):], "\n@@\n")
					}
					for _, m := range parts {
						st.ViolationCount++
						sig := firstLine(m)
						if !seenSig[sig] {
							seenSig[sig] = true
							st.Violations = append(st.Violations, Violation{Scenario: sc.Name, Msg: m, Choices: r.Choices(),
								Obs: r.Obs, Status: r.Status.String(), PanicMsg: r.PanicMsg, PanicStk: r.PanicStk})
						}
					}
					if opt.StopAtFirst {
						st.Complete = false
						break
					}
				}
			}
		}
		// expand alternatives at fresh points (in reverse so that the
		// shallowest / lowest alternative is explored first)
		n := len(r.Trace)
		if r.Status == StPruned {
			n-- // the point at which we pruned has been expanded elsewhere
		}
		var kids []frame
		for i := len(f.prefix); i < n; i++ {
			p := r.Trace[i]
			if (opt.DevFrom != 0 || opt.DevTo != 0) && p.Kind != 'e' && (p.T < opt.DevFrom || p.T > opt.DevTo) {
				continue
			}
			for alt := 1; alt < p.N; alt++ {
				c := f.cost + p.Cost
				if opt.Bound >= 0 && c > opt.Bound {
					continue
				}
				np := make([]int, i+1)
				for j := 0; j < i; j++ {
					np[j] = r.Trace[j].Chosen
				}
				np[i] = alt
				kids = append(kids, frame{prefix: np, cost: c})
			}
		}
		for i := len(kids) - 1; i >= 0; i-- {
			stack = append(stack, kids[i])
		}
	}
	st.States = int64(len(cache))
	if int64(len(endStates)) > st.States {
		st.States = int64(len(endStates))
	}
	return st
}

func firstLine(s string) string {
	for i := 0; i < len(s); i++ {
		if s[i] == '\n' {
			return s[:i]
		}
	}
	return s
}

// Replay runs one schedule and returns the result (for violation replays and
// determinism checks).
func Replay(sc *Scenario, choices []int) *Result {
	if sc.Reset != nil {
		sc.Reset()
	}
	return RunOnce(sc.Main, choices, sc.MaxSteps, nil)
}

// TraceHash summarises a result for determinism comparison.
func (r *Result) TraceHash() uint64 {
	h := hashStr(r.Status.String() + "|" + r.ObsString() + "|" + r.PanicMsg)
	for _, p := range r.Trace {
		h = mix(h, uint64(p.N)<<8|uint64(p.Chosen))
	}
	return mix(h, uint64(r.EndTime))
}

func (v Violation) String() string {
	return fmt.Sprintf("scenario=%s status=%s %s", v.Scenario, v.Status, v.Msg)
}
