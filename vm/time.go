package vm

import "container/heap"

// Timer is a virtual timer.
type Timer struct {
	when   int64
	seq    uint64
	fn     func() // executed by the scheduler when the timer fires (must not park)
	period int64
	idx    int
	active bool
	h      uint64
}

type timerHeap []*Timer

func (h timerHeap) Len() int { return len(h) }
func (h timerHeap) Less(i, j int) bool {
	if h[i].when != h[j].when {
		return h[i].when < h[j].when
	}
	return h[i].seq < h[j].seq
}
func (h timerHeap) Swap(i, j int) { h[i], h[j] = h[j], h[i]; h[i].idx = i; h[j].idx = j }
func (h *timerHeap) Push(x any)   { t := x.(*Timer); t.idx = len(*h); *h = append(*h, t) }
func (h *timerHeap) Pop() any {
	old := *h
	n := len(old)
	t := old[n-1]
	*h = old[:n-1]
	t.idx = -1
	return t
}

// AddTimer arms a timer d ns from now. fn runs inside the scheduler.
func AddTimer(d int64, period int64, fn func()) *Timer {
	s := S
	if d < 0 {
		d = 0
	}
	t := &Timer{when: s.now + d, fn: fn, period: period}
	s.armTimer(t)
	return t
}

func (s *Sched) armTimer(t *Timer) {
	s.tseq++
	t.seq = s.tseq
	t.active = true
	if s.cur != nil {
		Touch(&t.h, 0x71)
		TouchVal(uint64(t.when))
	}
	heap.Push(&s.timers, t)
}

// Stop disarms; reports whether the timer was armed.
func (t *Timer) Stop() bool {
	if !t.active {
		return false
	}
	Touch(&t.h, 0x72)
	t.active = false
	heap.Remove(&S.timers, t.idx)
	return true
}

// Reset re-arms the timer d ns from now.
func (t *Timer) Reset(d int64) bool {
	was := t.Stop()
	if d < 0 {
		d = 0
	}
	t.when = S.now + d
	S.armTimer(t)
	return was
}

func (s *Sched) dueTimers() []*Timer {
	if len(s.timers) == 0 || s.timers[0].when > s.now {
		return nil
	}
	var due []*Timer
	for _, t := range s.timers {
		if t.when <= s.now {
			due = append(due, t)
		}
	}
	// canonical order
	for i := 1; i < len(due); i++ {
		for j := i; j > 0 && (due[j].when < due[j-1].when || (due[j].when == due[j-1].when && due[j].seq < due[j-1].seq)); j-- {
			due[j], due[j-1] = due[j-1], due[j]
		}
	}
	return due
}

// advanceClock moves time to the earliest pending timer; false if none.
func (s *Sched) advanceClock() bool {
	if len(s.timers) == 0 {
		return false
	}
	if s.timers[0].when > s.now {
		s.now = s.timers[0].when
	}
	return true
}

func (s *Sched) fire(t *Timer) {
	heap.Remove(&s.timers, t.idx)
	t.active = false
	s.clockH = mix(mix(s.clockH, t.h), uint64(t.when))
	t.h = s.clockH
	if t.period > 0 {
		t.when += t.period
		s.tseq++
		t.seq = s.tseq
		t.active = true
		heap.Push(&s.timers, t)
	}
	save := s.cur
	s.cur = nil
	fireH = s.clockH
	t.fn()
	s.cur = save
}

// fireH is the clock hash visible to timer callbacks (for hashing effects).
var fireH uint64

// FireHash returns the hash to mix into objects touched by a timer callback.
func FireHash() uint64 { return fireH }

// Sleep parks the current goroutine for d ns of virtual time.
func Sleep(d int64) {
	if !S.active {
		return
	}
	if d <= 0 {
		Yield()
		return
	}
	g := S.cur
	woken := false
	AddTimer(d, 0, func() {
		woken = true
		g.h = mix(g.h, fireH)
	})
	Block("sleep", func() bool { return woken })
}

// TimerSend performs a non-blocking send on c from a timer callback.
func TimerSend[T any](c chan T, v T) {
	cs := stateOf(chanKey(c), c, cap(c))
	cs.h = mix(cs.h, fireH)
	if len(cs.buf) < cs.cap {
		cs.buf = append(cs.buf, any(v))
	}
}

// TimerClose closes c from a timer callback (idempotent).
func TimerClose[T any](c chan T) {
	cs := stateOf(chanKey(c), c, cap(c))
	if S.cur != nil {
		Touch(&cs.h, 3)
	} else {
		cs.h = mix(cs.h, fireH)
	}
	cs.closed = true
}

// SpawnFromTimer starts a goroutine from a timer callback.
func SpawnFromTimer(f func()) {
	s := S
	g := &G{id: s.nextG, wake: make(chan struct{})}
	s.nextG++
	g.hid = mix(fireH, 0x5150)
	g.h = g.hid
	g.pend = &op{kind: "start"}
	s.gs = append(s.gs, g)
	go s.root(g, f)
}
