// Package atomic is the controlled replacement of sync/atomic: every
// operation is a scheduling point and a dependent operation on one global
// "atomics" object keyed by address.
package atomic

import (
	"unsafe"
	"verif/vm"
)

var cells = map[unsafe.Pointer]*uint64{}

func init() { vm.OnReset(func() { cells = map[unsafe.Pointer]*uint64{} }) }

func pt(p unsafe.Pointer, kind string, k uint64) {
	if !vm.Active() {
		return
	}
	vm.PointKind(kind)
	c := cells[p]
	if c == nil {
		c = new(uint64)
		cells[p] = c
	}
	vm.Touch(c, k)
}

func AddInt32(p *int32, d int32) int32 { pt(unsafe.Pointer(p), "atomic.Add", 0x41); *p += d; return *p }
func AddInt64(p *int64, d int64) int64 { pt(unsafe.Pointer(p), "atomic.Add", 0x41); *p += d; return *p }
func AddUint32(p *uint32, d uint32) uint32 {
	pt(unsafe.Pointer(p), "atomic.Add", 0x41)
	*p += d
	return *p
}
func AddUint64(p *uint64, d uint64) uint64 {
	pt(unsafe.Pointer(p), "atomic.Add", 0x41)
	*p += d
	return *p
}
func AddUintptr(p *uintptr, d uintptr) uintptr {
	pt(unsafe.Pointer(p), "atomic.Add", 0x41)
	*p += d
	return *p
}

func LoadInt32(p *int32) int32       { pt(unsafe.Pointer(p), "atomic.Load", 0x42); return *p }
func LoadInt64(p *int64) int64       { pt(unsafe.Pointer(p), "atomic.Load", 0x42); return *p }
func LoadUint32(p *uint32) uint32    { pt(unsafe.Pointer(p), "atomic.Load", 0x42); return *p }
func LoadUint64(p *uint64) uint64    { pt(unsafe.Pointer(p), "atomic.Load", 0x42); return *p }
func LoadUintptr(p *uintptr) uintptr { pt(unsafe.Pointer(p), "atomic.Load", 0x42); return *p }
func LoadPointer(p *unsafe.Pointer) unsafe.Pointer {
	pt(unsafe.Pointer(p), "atomic.Load", 0x42)
	return *p
}

func StoreInt32(p *int32, v int32)       { pt(unsafe.Pointer(p), "atomic.Store", 0x43); *p = v }
func StoreInt64(p *int64, v int64)       { pt(unsafe.Pointer(p), "atomic.Store", 0x43); *p = v }
func StoreUint32(p *uint32, v uint32)    { pt(unsafe.Pointer(p), "atomic.Store", 0x43); *p = v }
func StoreUint64(p *uint64, v uint64)    { pt(unsafe.Pointer(p), "atomic.Store", 0x43); *p = v }
func StoreUintptr(p *uintptr, v uintptr) { pt(unsafe.Pointer(p), "atomic.Store", 0x43); *p = v }
func StorePointer(p *unsafe.Pointer, v unsafe.Pointer) {
	pt(unsafe.Pointer(p), "atomic.Store", 0x43)
	*p = v
}

func SwapInt32(p *int32, v int32) int32 {
	pt(unsafe.Pointer(p), "atomic.Swap", 0x44)
	o := *p
	*p = v
	return o
}
func SwapInt64(p *int64, v int64) int64 {
	pt(unsafe.Pointer(p), "atomic.Swap", 0x44)
	o := *p
	*p = v
	return o
}
func SwapUint32(p *uint32, v uint32) uint32 {
	pt(unsafe.Pointer(p), "atomic.Swap", 0x44)
	o := *p
	*p = v
	return o
}
func SwapUint64(p *uint64, v uint64) uint64 {
	pt(unsafe.Pointer(p), "atomic.Swap", 0x44)
	o := *p
	*p = v
	return o
}

func CompareAndSwapInt32(p *int32, o, n int32) bool {
	pt(unsafe.Pointer(p), "atomic.CAS", 0x45)
	if *p == o {
		*p = n
		return true
	}
	return false
}
func CompareAndSwapInt64(p *int64, o, n int64) bool {
	pt(unsafe.Pointer(p), "atomic.CAS", 0x45)
	if *p == o {
		*p = n
		return true
	}
	return false
}
func CompareAndSwapUint32(p *uint32, o, n uint32) bool {
	pt(unsafe.Pointer(p), "atomic.CAS", 0x45)
	if *p == o {
		*p = n
		return true
	}
	return false
}
func CompareAndSwapUint64(p *uint64, o, n uint64) bool {
	pt(unsafe.Pointer(p), "atomic.CAS", 0x45)
	if *p == o {
		*p = n
		return true
	}
	return false
}
func CompareAndSwapPointer(p *unsafe.Pointer, o, n unsafe.Pointer) bool {
	pt(unsafe.Pointer(p), "atomic.CAS", 0x45)
	if *p == o {
		*p = n
		return true
	}
	return false
}

// Value
type Value struct {
	v any
}

func (v *Value) Load() any   { pt(unsafe.Pointer(v), "atomic.Load", 0x42); return v.v }
func (v *Value) Store(x any) { pt(unsafe.Pointer(v), "atomic.Store", 0x43); v.v = x }
func (v *Value) Swap(x any) any {
	pt(unsafe.Pointer(v), "atomic.Swap", 0x44)
	o := v.v
	v.v = x
	return o
}
func (v *Value) CompareAndSwap(o, n any) bool {
	pt(unsafe.Pointer(v), "atomic.CAS", 0x45)
	if v.v == o {
		v.v = n
		return true
	}
	return false
}

type Int32 struct{ v int32 }

func (x *Int32) Load() int32                    { return LoadInt32(&x.v) }
func (x *Int32) Store(v int32)                  { StoreInt32(&x.v, v) }
func (x *Int32) Add(d int32) int32              { return AddInt32(&x.v, d) }
func (x *Int32) Swap(v int32) int32             { return SwapInt32(&x.v, v) }
func (x *Int32) CompareAndSwap(o, n int32) bool { return CompareAndSwapInt32(&x.v, o, n) }

type Int64 struct{ v int64 }

func (x *Int64) Load() int64                    { return LoadInt64(&x.v) }
func (x *Int64) Store(v int64)                  { StoreInt64(&x.v, v) }
func (x *Int64) Add(d int64) int64              { return AddInt64(&x.v, d) }
func (x *Int64) Swap(v int64) int64             { return SwapInt64(&x.v, v) }
func (x *Int64) CompareAndSwap(o, n int64) bool { return CompareAndSwapInt64(&x.v, o, n) }

type Uint32 struct{ v uint32 }

func (x *Uint32) Load() uint32                    { return LoadUint32(&x.v) }
func (x *Uint32) Store(v uint32)                  { StoreUint32(&x.v, v) }
func (x *Uint32) Add(d uint32) uint32             { return AddUint32(&x.v, d) }
func (x *Uint32) Swap(v uint32) uint32            { return SwapUint32(&x.v, v) }
func (x *Uint32) CompareAndSwap(o, n uint32) bool { return CompareAndSwapUint32(&x.v, o, n) }

type Uint64 struct{ v uint64 }

func (x *Uint64) Load() uint64                    { return LoadUint64(&x.v) }
func (x *Uint64) Store(v uint64)                  { StoreUint64(&x.v, v) }
func (x *Uint64) Add(d uint64) uint64             { return AddUint64(&x.v, d) }
func (x *Uint64) Swap(v uint64) uint64            { return SwapUint64(&x.v, v) }
func (x *Uint64) CompareAndSwap(o, n uint64) bool { return CompareAndSwapUint64(&x.v, o, n) }

type Bool struct{ v uint32 }

func (x *Bool) Load() bool { return LoadUint32(&x.v) != 0 }
func (x *Bool) Store(b bool) {
	var v uint32
	if b {
		v = 1
	}
	StoreUint32(&x.v, v)
}
func (x *Bool) Swap(b bool) bool {
	var v uint32
	if b {
		v = 1
	}
	return SwapUint32(&x.v, v) != 0
}
func (x *Bool) CompareAndSwap(o, n bool) bool {
	var ov, nv uint32
	if o {
		ov = 1
	}
	if n {
		nv = 1
	}
	return CompareAndSwapUint32(&x.v, ov, nv)
}
