// Package context is the controlled replacement of the standard context
// package: cancellation and deadlines run on the scheduler's channels/clock.
package context

import (
	real "context"
	"time"

	"verif/vm"
	vtime "verif/vm/vtime"
)

type Context = real.Context
type CancelFunc = real.CancelFunc

var Canceled = real.Canceled
var DeadlineExceeded = real.DeadlineExceeded

func Background() Context { return real.Background() }
func TODO() Context       { return real.TODO() }

func WithValue(parent Context, key, val any) Context { return real.WithValue(parent, key, val) }

type ctxKeyT struct{}

var ctxKey ctxKeyT

type cancelCtx struct {
	parent   Context
	done     chan struct{}
	err      error
	children []*cancelCtx
	deadline time.Time
	hasDL    bool
	timer    *vm.Timer
	h        uint64
}

func (c *cancelCtx) Deadline() (time.Time, bool) {
	if c.hasDL {
		return c.deadline, true
	}
	return c.parent.Deadline()
}
func (c *cancelCtx) Done() <-chan struct{} { return c.done }
func (c *cancelCtx) Err() error {
	vm.Touch(&c.h, 0x51)
	return c.err
}
func (c *cancelCtx) Value(key any) any {
	if key == &ctxKey {
		return c
	}
	return c.parent.Value(key)
}

func newCancelCtx(parent Context) *cancelCtx {
	if parent == nil {
		panic("cannot create context from nil parent")
	}
	c := &cancelCtx{parent: parent, done: make(chan struct{})}
	if p, ok := parent.Value(&ctxKey).(*cancelCtx); ok {
		vm.Touch(&p.h, 0x52)
		if p.err != nil {
			c.err = p.err
			closeDone(c)
		} else {
			p.children = append(p.children, c)
		}
	} else if parent.Done() != nil {
		panic("verif/vm/vctx: parent context with a foreign Done channel is not supported")
	}
	return c
}

func closeDone(c *cancelCtx) {
	if vm.Active() {
		vm.TimerClose(c.done) // non-parking close, usable from timers and goroutines alike
	} else {
		close(c.done)
	}
}

func (c *cancelCtx) cancel(err error, fromTimer bool) {
	if !fromTimer {
		vm.Touch(&c.h, 0x53)
	} else {
		c.h ^= vm.FireHash()
	}
	if c.err != nil {
		return
	}
	c.err = err
	closeDone(c)
	if c.timer != nil {
		c.timer.Stop()
	}
	for _, ch := range c.children {
		ch.cancel(err, fromTimer)
	}
	c.children = nil
}

func WithCancel(parent Context) (Context, CancelFunc) {
	c := newCancelCtx(parent)
	return c, func() {
		vm.PointKind("ctx.cancel")
		c.cancel(Canceled, false)
	}
}

func WithDeadline(parent Context, d time.Time) (Context, CancelFunc) {
	c := newCancelCtx(parent)
	if cur, ok := parent.Deadline(); ok && cur.Before(d) {
		d = cur
	}
	c.deadline, c.hasDL = d, true
	if c.err == nil && !d.After(vtime.Now()) {
		c.cancel(DeadlineExceeded, false) // deadline already passed: cancelled at once, as in the real package
	}
	if c.err == nil && vm.Active() {
		dur := d.Sub(vtime.Now())
		c.timer = vm.AddTimer(int64(dur), 0, func() { c.cancel(DeadlineExceeded, true) })
	}
	return c, func() {
		vm.PointKind("ctx.cancel")
		c.cancel(Canceled, false)
	}
}

func WithTimeout(parent Context, timeout time.Duration) (Context, CancelFunc) {
	return WithDeadline(parent, vtime.Now().Add(timeout))
}
