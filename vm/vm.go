// Package vm is a cooperative, controlled scheduler for Go code whose
// synchronisation operations have been redirected to it (by /verif/instr).
// Exactly one controlled goroutine runs at a time; every blocking or
// communicating operation first parks at a scheduling point, where a choice
// taken from the current schedule decides who continues.  Time is virtual.
package vm

import (
	"fmt"
	"runtime"
	"runtime/debug"
	"sort"
	"strings"
	"sync/atomic"
	"time"
)

// Status of one finished execution.
type Status int

const (
	StOK Status = iota
	StDeadlock
	StPanic
	StStepLimit
	StPruned
	StExit // vos.Exit called
)

func (s Status) String() string {
	return [...]string{"ok", "deadlock", "panic", "steplimit", "pruned", "exit"}[s]
}

// G is one controlled goroutine.
type G struct {
	id     int
	hid    uint64 // schedule-independent identity
	h      uint64 // happens-before hash of everything this goroutine did/observed
	wake   chan struct{}
	pend   *op
	done   bool
	killed bool
	Name   string
	nspawn uint64
	// stalled: held back by a "stall" deviation until just after the next timer instant
	stalled bool
	// result slots for completed-by-partner operations
	rval any
	rok  bool
	rsel int
}

type op struct {
	kind    string
	enabled func() bool // nil: always enabled
	// channel bookkeeping so that partners can find us
	ch    *chanState // simple send/recv
	dir   int        // 1 send, 2 recv
	sval  any
	cases []SelCase // select
	hasDf bool
	// set when a partner completed this operation for us
	completed bool
}

type pointRec struct {
	N      int   // number of alternatives
	Chosen int   // alternative taken
	Cost   int   // cost of taking a non-zero alternative (0 or 1)
	Kind   byte  // 's' schedule, 'c' select case, 'e' environment
	T      int64 // virtual time of the point
}

// Sched is the per-process scheduler state.
type Sched struct {
	active  bool
	killing bool
	epoch   uint64

	gs    []*G
	cur   *G
	nextG int

	now    int64
	timers timerHeap
	tseq   uint64
	clockH uint64
	doneH  uint64 // accumulated hashes of finished goroutines
	logH   uint64

	prefix   []int
	trace    []pointRec
	steps    int
	maxSteps int

	status   Status
	panicMsg string
	panicStk string
	exitCode int
	obs      []string
	ended    bool
	endCh    chan struct{}
	exitCh   chan struct{}
	mainDone bool

	chans map[uintptr]*chanState

	// pruning hook: called at each recorded point index >= len(prefix);
	// returns true if the execution can be abandoned.
	pruneFn func(idx int, fp uint64, cost int) bool

	policy    int
	strictDev bool // every departure from the default schedule costs 1
	stall     bool // offer "hold the running goroutine until the clock moves" as a further alternative
	fpNoCur   bool // unbounded search: who is running does not matter

	hooks []func() // per-execution reset hooks registered by shims
}

var S = &Sched{}

// MaxGoroutines bounds the goroutines of one execution.
var MaxGoroutines = 20000

// ExecStart is the wall-clock start (unix nanoseconds) of the running
// execution, 0 when none runs; worker processes watch it to turn an execution
// that never ends (a loop without any scheduling point) into a report.
var ExecStart atomic.Int64

// Progress counts the scheduling points of all executions of this process: an execution that is slow
// (a loaded machine) still moves it, a loop without any scheduling point does not.
var Progress atomic.Int64

// TraceLog, if set, sees every observation as it is logged (debugging).
var TraceLog func(string)

// TraceSched, if set, is called at every scheduling decision (debugging).
var TraceSched func(point int, now int64, enabled []string)

// FingerprintIgnoresRunning is set by the explorer for unbounded searches,
// where the identity of the running goroutine has no influence on the future.
var FingerprintIgnoresRunning bool

// Default scheduling policies: which goroutine runs by default when the running
// one blocks (the running one always continues by default while it can).
const (
	PolicyOldestFirst = iota // lowest id
	PolicyNewestFirst        // highest id
	PolicyRoundRobin         // next id after the one that blocked
)

// DefaultPolicy is the policy used by the next executions.
var DefaultPolicy int

// StrictDeviations makes every scheduling alternative other than the default
// one (keep running; else lowest id) cost one deviation, also at points where
// the running goroutine blocked.  Bound 0 is then exactly one schedule.
var StrictDeviations bool

// StallDeviations adds one more alternative at every scheduling point at which the running goroutine could go
// on and a timer lies in the future: the goroutine is held back until just after the next timer instant (a
// pre-emption that lasts; the maximal-progress clock otherwise never lets time pass while something is
// runnable).  It costs one deviation.  Only for scenarios whose oracle does not bound how late a goroutine may
// act.
var StallDeviations bool

// Active reports whether a controlled execution is in progress.
func Active() bool { return S.active }

// Epoch identifies the current execution; shim objects use it to reset lazily.
func Epoch() uint64 { return S.epoch }

func mix(a, b uint64) uint64 {
	x := a*0x9E3779B97F4A7C15 ^ (b + 0x7F4A7C15F39CC060 + (a << 6) + (a >> 2))
	x ^= x >> 32
	x *= 0xD6E8FEB86659FD93
	x ^= x >> 32
	return x
}

func hashStr(s string) uint64 {
	var h uint64 = 1469598103934665603
	for i := 0; i < len(s); i++ {
		h ^= uint64(s[i])
		h *= 1099511628211
	}
	return h
}

// Touch records that the current goroutine performed a dependent operation on
// the object whose hash cell is *oh.
func Touch(oh *uint64, kind uint64) {
	if !S.active || S.cur == nil {
		return
	}
	g := S.cur
	g.h = mix(mix(g.h, *oh), kind)
	*oh = g.h
}

// TouchVal mixes a plain value into the current goroutine's hash.
func TouchVal(v uint64) {
	if !S.active || S.cur == nil {
		return
	}
	S.cur.h = mix(S.cur.h, v)
}

func (s *Sched) fingerprint() uint64 {
	fp := s.doneH + mix(uint64(s.now), 77) + s.clockH
	for _, g := range s.gs {
		if !g.done {
			fp += mix(g.hid, g.h)
		}
	}
	if s.cur != nil && !s.fpNoCur {
		fp = mix(fp, s.cur.hid)
	}
	return fp
}

// Go starts a controlled goroutine.
func Go(f func()) {
	s := S
	if !s.active {
		// outside an execution (package init): nothing is started; the
		// scenario's reset code starts what it needs.
		return
	}
	if s.killing {
		return
	}
	if len(s.gs) >= MaxGoroutines {
		// a subject that spawns goroutines without bound never reaches a scheduling
		// point of its own: stop it here, as an ordinary panic of the subject
		panic(fmt.Sprintf("runaway goroutine creation: more than %d goroutines in one execution", MaxGoroutines))
	}
	parent := s.cur
	g := &G{id: s.nextG, wake: make(chan struct{})}
	s.nextG++
	if parent != nil {
		parent.nspawn++
		g.hid = mix(mix(parent.hid, parent.h), parent.nspawn)
		parent.h = mix(parent.h, 0x60)
	} else {
		g.hid = mix(uint64(g.id), 0x1234)
	}
	g.h = g.hid
	g.pend = &op{kind: "start"}
	if pc, _, _, ok := runtime.Caller(1); ok {
		if fn := runtime.FuncForPC(pc); fn != nil {
			n := fn.Name()
			if i := strings.LastIndexByte(n, '/'); i >= 0 {
				n = n[i+1:]
			}
			g.Name = "by:" + n
		}
	}
	s.gs = append(s.gs, g)
	go s.root(g, f)
}

// GoNamed is Go plus a name for diagnostics.
func GoNamed(name string, f func()) {
	Go(f)
	if S.active && !S.killing {
		S.gs[len(S.gs)-1].Name = name
	}
}

func (s *Sched) root(g *G, f func()) {
	<-g.wake
	defer func() {
		r := recover()
		if s.killing || g.killed {
			g.done = true
			s.exitCh <- struct{}{}
			return
		}
		g.done = true
		s.doneH += mix(g.hid, g.h)
		if r != nil {
			if _, isExit := r.(exitSentinel); isExit {
				s.end(StExit)
			} else {
				s.panicMsg = fmt.Sprint(r)
				s.panicStk = string(debug.Stack())
				s.end(StPanic)
			}
			return
		}
		if g.id == 0 {
			s.mainDone = true
			s.end(StOK)
			return
		}
		s.schedule(g)
	}()
	if g.killed {
		return
	}
	f()
}

type exitSentinel struct{ code int }

// Exit models os.Exit inside an execution.
func Exit(code int) {
	if !S.active {
		panic(fmt.Sprintf("vm.Exit(%d) outside execution", code))
	}
	S.exitCode = code
	panic(exitSentinel{code})
}

// end finishes the execution; called by the running goroutine.
func (s *Sched) end(st Status) {
	// the send must be the last access to s by this goroutine
	s.ended = true
	s.status = st
	s.endCh <- struct{}{}
}

// Point parks the current goroutine with pending operation o until the
// schedule selects it.
func (s *Sched) point(o *op) {
	g := s.cur
	if g.killed || s.killing {
		runtime.Goexit()
	}
	g.pend = o
	g.h = mix(g.h, 0x99) // the goroutine's own progress
	s.schedule(g)
	g.pend = nil
}

// Yield is a plain scheduling point.
func Yield() {
	if !S.active {
		return
	}
	S.point(&op{kind: "yield"})
}

// PointKind is a plain scheduling point with a label (used by shims before
// non-blocking shared operations such as atomics).
func PointKind(kind string) {
	if !S.active {
		return
	}
	S.point(&op{kind: kind})
}

// Block parks until cond() holds; cond is evaluated by the scheduler only.
func Block(kind string, cond func() bool) {
	if !S.active {
		if !cond() {
			panic("vm: blocking operation '" + kind + "' outside a controlled execution would block forever")
		}
		return
	}
	S.point(&op{kind: kind, enabled: cond})
}

func (o *op) isEnabled() bool {
	if o.completed {
		return true
	}
	if o.enabled == nil {
		return true
	}
	return o.enabled()
}

// parkForever is called by a goroutine right after it ended the execution (or
// noticed it ended): it must not touch S any more.
func parkForever(self *G) {
	if self.done {
		return
	}
	<-self.wake
	runtime.Goexit()
}

// schedule is run by goroutine self (parked with self.pend set, or done).
func (s *Sched) schedule(self *G) {
	for {
		s.steps++
		Progress.Add(1)
		if s.steps > s.maxSteps {
			s.end(StStepLimit)
			parkForever(self)
			return
		}
		// collect enabled goroutines in canonical order
		var evG []*G
		curEnabled := false
		if !self.done && self.pend != nil && !self.stalled && self.pend.isEnabled() {
			evG = append(evG, self)
			curEnabled = true
		}
		ng := len(s.gs)
		for k := 0; k < ng; k++ {
			// canonical order of the others depends on the default policy
			var g *G
			switch s.policy {
			case PolicyNewestFirst:
				g = s.gs[ng-1-k]
			case PolicyRoundRobin:
				g = s.gs[(self.id+1+k)%ng]
			default:
				g = s.gs[k]
			}
			if g == self || g.done || g.pend == nil {
				continue
			}
			if g.stalled {
				continue
			}
			if g.pend.isEnabled() {
				evG = append(evG, g)
			}
		}
		due := s.dueTimers()
		n := len(evG) + len(due)
		stallable := s.stall && curEnabled && len(s.timers) > 0 && s.timers[0].when > s.now
		if stallable {
			n++
		}
		if n == 0 {
			if s.advanceClock() {
				continue
			}
			s.end(StDeadlock)
			parkForever(self)
			return
		}
		if TraceSched != nil {
			var ds []string
			for _, g := range evG {
				ds = append(ds, fmt.Sprintf("g%d:%s:%s", g.id, g.Name, g.pend.kind))
			}
			for _, t := range due {
				ds = append(ds, fmt.Sprintf("timer@%d#%d", t.when, t.seq))
			}
			TraceSched(len(s.trace), s.now, ds)
		}
		cost := 0
		if curEnabled || s.strictDev {
			cost = 1
		}
		c := 0
		if n > 1 {
			c = s.choose(n, cost, 's')
			if c < 0 {
				parkForever(self)
				return
			}
		}
		if stallable && c == n-1 {
			// held back until just after the next timer instant: whatever that instant wakes runs first
			self.stalled = true
			self.h = mix(self.h, 0x57a11)
			g := self
			save := s.cur
			s.cur = nil
			AddTimer(s.timers[0].when+1-s.now, 0, func() { g.stalled = false })
			s.cur = save
			continue
		}
		if c >= len(evG) {
			s.fire(due[c-len(evG)])
			continue
		}
		next := evG[c]
		if next == self {
			return
		}
		s.cur = next
		next.wake <- struct{}{}
		if self.done {
			return
		}
		<-self.wake
		if self.killed {
			runtime.Goexit()
		}
		return
	}
}

// choose records a choice point with n alternatives.  It returns -1 if the
// execution was ended here (pruned): the caller must park without touching S.
func (s *Sched) choose(n, cost int, kind byte) int {
	idx := len(s.trace)
	c := 0
	if idx < len(s.prefix) {
		c = s.prefix[idx]
		if c >= n {
			panic(fmt.Sprintf("vm: replay divergence at point %d: choice %d of %d", idx, c, n))
		}
	}
	if s.pruneFn != nil && idx >= len(s.prefix)-1 {
		// the state after the last prefix choice (idx == len(prefix)-1 is the
		// deviation itself; its state was seen by the parent execution) —
		// check fingerprints from the first fresh point on.
		if idx >= len(s.prefix) {
			if s.pruneFn(idx, mix(s.fingerprint(), uint64(kind)), cost) {
				s.trace = append(s.trace, pointRec{N: n, Chosen: c, Cost: cost, Kind: kind, T: s.now})
				s.end(StPruned)
				return -1
			}
		}
	}
	s.trace = append(s.trace, pointRec{N: n, Chosen: c, Cost: cost, Kind: kind, T: s.now})
	return c
}

// Choose is an environment choice among n answers; answer 0 is the default.
// cost is what a non-default answer costs against the deviation bound.
func Choose(n int, cost int) int {
	if !S.active {
		return 0
	}
	if n <= 1 {
		return 0
	}
	s := S
	if s.cur != nil && (s.cur.killed || s.killing) {
		runtime.Goexit()
	}
	g := s.cur
	c := s.choose(n, cost, 'e')
	if c < 0 {
		<-g.wake
		runtime.Goexit()
	}
	TouchVal(uint64(c) + 0xC0)
	return c
}

// Log appends an observation; observations are totally ordered and count as
// mutually dependent operations.
func Log(format string, a ...any) {
	if !S.active {
		return
	}
	Touch(&S.logH, 0x10)
	S.obs = append(S.obs, fmt.Sprintf(format, a...))
	if TraceLog != nil {
		TraceLog(S.obs[len(S.obs)-1])
	}
}

// Now returns virtual time in ns.
func Now() int64 {
	if S.active {
		TouchVal(uint64(S.now))
	}
	return S.now
}

// CurID returns the running controlled goroutine's id (-1 outside).
func CurID() int {
	if !S.active || S.cur == nil {
		return -1
	}
	return S.cur.id
}

// OnReset registers f to run at the start of every execution.
func OnReset(f func()) { S.hooks = append(S.hooks, f) }

// Result describes one finished execution.
type Result struct {
	EndFP    uint64 // fingerprint of the final state
	Status   Status
	PanicMsg string
	PanicStk string
	ExitCode int
	Obs      []string
	Trace    []pointRec
	EndTime  int64
	Blocked  []string // goroutines still parked at the end: "id:name:op"
	Steps    int
}

func (r *Result) Choices() []int {
	c := make([]int, len(r.Trace))
	for i, p := range r.Trace {
		c[i] = p.Chosen
	}
	return c
}

// ObsString joins the observations.
func (r *Result) ObsString() string { return strings.Join(r.Obs, "\n") }

// RunOnce executes main under the given choice prefix (defaults afterwards).
func RunOnce(main func(), prefix []int, maxSteps int, prune func(idx int, fp uint64, cost int) bool) *Result {
	s := S
	if s.active {
		panic("vm: nested execution")
	}
	s.epoch++
	s.active = true
	s.killing = false
	s.gs = s.gs[:0]
	s.cur = nil
	s.nextG = 0
	s.now = 0
	s.timers = s.timers[:0]
	s.tseq = 0
	s.clockH = 0
	s.doneH = 0
	s.logH = 0
	s.prefix = prefix
	s.trace = nil
	s.steps = 0
	if maxSteps <= 0 {
		maxSteps = 200000
	}
	s.maxSteps = maxSteps
	s.status = StOK
	s.panicMsg, s.panicStk = "", ""
	s.exitCode = 0
	s.obs = nil
	s.ended = false
	s.mainDone = false
	s.endCh = make(chan struct{}, 1)
	s.exitCh = make(chan struct{})
	s.chans = make(map[uintptr]*chanState)
	s.pruneFn = prune
	s.fpNoCur = FingerprintIgnoresRunning
	s.strictDev = StrictDeviations
	s.stall = StallDeviations
	s.policy = DefaultPolicy
	for _, h := range s.hooks {
		h()
	}

	ExecStart.Store(time.Now().UnixNano())
	Go(main)
	g0 := s.gs[0]
	g0.Name = "main"
	s.cur = g0
	g0.pend = nil
	g0.wake <- struct{}{}
	<-s.endCh

	endFP := s.fingerprint()
	res := &Result{EndFP: endFP, Status: s.status, PanicMsg: s.panicMsg, PanicStk: s.panicStk, ExitCode: s.exitCode,
		Obs: s.obs, Trace: s.trace, EndTime: s.now, Steps: s.steps}
	for _, g := range s.gs {
		if !g.done && g.pend != nil {
			res.Blocked = append(res.Blocked, fmt.Sprintf("%d:%s:%s", g.id, g.Name, g.pend.kind))
		}
	}
	sort.Strings(res.Blocked)
	// kill everything still parked
	s.killing = true
	for i := 0; i < len(s.gs); i++ {
		g := s.gs[i]
		if g.done {
			continue
		}
		g.killed = true
		s.cur = g
		g.wake <- struct{}{}
		<-s.exitCh
	}
	s.active = false
	s.killing = false
	s.cur = nil
	s.chans = nil
	ExecStart.Store(0)
	return res
}

// Obs returns the observations logged so far in the running execution.
func (s *Sched) Obs() []string { return s.obs }

// IsExit reports whether a recovered panic value is the sentinel of vm.Exit
// (callers that recover must re-panic it).
func IsExit(r any) bool {
	_, ok := r.(exitSentinel)
	return ok
}
