package vm

import (
	"fmt"
	"sort"
	"strings"
	"testing"
)

func outcomes(st *Stats) string {
	var ks []string
	for k := range st.Outcomes {
		ks = append(ks, strings.ReplaceAll(k, "\n", ";"))
	}
	sort.Strings(ks)
	return strings.Join(ks, " || ")
}

// lost update: two goroutines do load; store(+1) with a yield between.
func TestLostUpdate(t *testing.T) {
	var x int
	var xh uint64
	sc := &Scenario{Name: "lost", Reset: func() { x = 0; xh = 0 }, Main: func() {
		done := make(chan struct{})
		for i := 0; i < 2; i++ {
			Go(func() {
				PointKind("load")
				Touch(&xh, 1)
				v := x
				PointKind("store")
				Touch(&xh, 2)
				x = v + 1
				Send(done, struct{}{})
			})
		}
		Recv(done)
		Recv(done)
		Log("x=%d", x)
	}}
	for _, prune := range []bool{false, true} {
		for _, b := range []int{0, 1, 2, -1} {
			st := Explore(sc, Options{Bound: b, Prune: prune})
			t.Logf("prune=%v bound=%d exec=%d pruned=%d states=%d outcomes=%s", prune, b, st.Executions, st.Pruned, st.States, outcomes(st))
			if b != 0 && len(st.Outcomes) != 2 {
				t.Fatalf("expected both x=1 and x=2")
			}
		}
	}
}

func TestSelectBoth(t *testing.T) {
	sc := &Scenario{Name: "sel", Main: func() {
		a := make(chan int, 1)
		b := make(chan int, 1)
		Send(a, 1)
		Send(b, 2)
		ka, kb := RecvCase(a), RecvCase(b)
		switch Select(false, ka, kb) {
		case 0:
			Log("a%d", ka.Val())
		case 1:
			Log("b%d", kb.Val())
		}
	}}
	st := Explore(sc, Options{Bound: 0})
	if len(st.Outcomes) != 2 {
		t.Fatalf("outcomes: %s", outcomes(st))
	}
}

func TestDeadlockAndTimer(t *testing.T) {
	sc := &Scenario{Name: "dl", Main: func() {
		c := make(chan int)
		Go(func() { Sleep(100); Send(c, 7) })
		v := Recv(c)
		Log("v=%d t=%d", v, Now())
		Recv(c)
	}}
	st := Explore(sc, Options{Bound: -1})
	if st.Deadlocks != st.Executions || len(st.Outcomes) != 1 {
		t.Fatalf("%+v", st)
	}
	for k := range st.Outcomes {
		if !strings.Contains(k, "v=7 t=100") {
			t.Fatal(k)
		}
	}
}

func TestRendezvousUnbuffered(t *testing.T) {
	sc := &Scenario{Name: "rv", Main: func() {
		c := make(chan int)
		d := make(chan string, 4)
		for i := 0; i < 2; i++ {
			i := i
			Go(func() { Send(c, i) })
		}
		for i := 0; i < 2; i++ {
			i := i
			Go(func() { v := Recv(c); Send(d, fmt.Sprintf("r%d=%d", i, v)) })
		}
		x := []string{Recv(d), Recv(d)}
		sort.Strings(x)
		Log("%v", x)
	}}
	a := Explore(sc, Options{Bound: -1})
	b := Explore(sc, Options{Bound: -1, Prune: true})
	t.Logf("noprune exec=%d; prune exec=%d pruned=%d; outcomes=%s", a.Executions, b.Executions, b.Pruned, outcomes(b))
	if outcomes(a) != outcomes(b) || len(a.Outcomes) != 2 {
		t.Fatalf("%s vs %s", outcomes(a), outcomes(b))
	}
}

// stall deviations: a goroutine between two steps can be held back while the clock moves on.
// Without them the maximal-progress clock never lets main's 1 ms pass while the worker is runnable.
func TestStallDeviation(t *testing.T) {
	var flag bool
	sc := &Scenario{Name: "stall", Reset: func() { flag = false }, Main: func() {
		done := make(chan struct{}, 1)
		Go(func() {
			PointKind("step1")
			PointKind("step2")
			Log("worker sees flag=%v", flag)
			Send(done, struct{}{})
		})
		Sleep(1e6)
		flag = true
		Recv(done)
	}}
	for _, stall := range []bool{false, true} {
		st := Explore(sc, Options{Bound: 1, StrictDev: true, Stall: stall})
		got := outcomes(st)
		sawLate := strings.Contains(got, "flag=true")
		if stall != sawLate {
			t.Fatalf("stall=%v: outcomes %s", stall, got)
		}
		if !st.Complete {
			t.Fatalf("incomplete")
		}
	}
	StallDeviations = false
}
