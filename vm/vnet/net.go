// Package net is the controlled replacement of the standard net package for
// instrumented code: an in-memory TCP/UDP world living on the scheduler's
// virtual clock.  Pure data types are aliases of the real ones.
package net

import (
	"errors"
	"fmt"
	"io"
	real "net"
	"os"
	"strconv"
	"syscall"
	"time"

	"verif/vm"
	vtime "verif/vm/vtime"
)

type (
	Addr       = real.Addr
	Conn       = real.Conn
	Listener   = real.Listener
	Error      = real.Error
	OpError    = real.OpError
	TCPAddr    = real.TCPAddr
	UDPAddr    = real.UDPAddr
	IP         = real.IP
	Dialer     = real.Dialer
	PacketConn = real.PacketConn
	AddrError  = real.AddrError
)

var ErrClosed = real.ErrClosed

// ---------------------------------------------------------------------------
// world

// LogEntry is one network event, for oracles.
type LogEntry struct {
	T    int64  // virtual time
	Conn string // "c3" client side of connection 3, "s3" server side, "L:addr" listener, "u:addr" udp socket
	Op   string // dial accept read write close eof rst refuse deadline
	N    int
	Data []byte
	Err  string
}

type World struct {
	listeners map[string]*TCPListener
	udp       map[string]*UDPConn
	blackhole map[string]bool
	window    map[string]int // per listening address: max unread bytes per direction (0 = unbounded)
	nextConn  int
	nextPort  int
	Log       []LogEntry
	// ShortReads makes every Read with more than one byte available an
	// environment choice between "all" (default), "one byte" and "half".
	ShortReads bool
	h          uint64
}

var W = newWorld()

func newWorld() *World {
	return &World{listeners: map[string]*TCPListener{}, udp: map[string]*UDPConn{}, blackhole: map[string]bool{},
		window: map[string]int{}, nextPort: 40000}
}

func init() { vm.OnReset(func() { W = newWorld() }) }

// Blackhole makes dials to addr hang until their timeout.
func Blackhole(addr string, on bool) { vm.Touch(&W.h, 0x61); W.blackhole[addr] = on }

// SetWindow bounds the number of unread bytes per direction on connections to addr.
func SetWindow(addr string, n int) { W.window[addr] = n }

func (w *World) log(conn, op string, n int, data []byte, err error) {
	e := LogEntry{T: vm.Now(), Conn: conn, Op: op, N: n}
	if data != nil {
		e.Data = append([]byte{}, data...)
	}
	if err != nil {
		e.Err = err.Error()
	}
	w.Log = append(w.Log, e)
}

func opErr(op, network string, addr Addr, err error) *OpError {
	return &OpError{Op: op, Net: network, Addr: addr, Err: err}
}

func parseAddr(network, address string) (*TCPAddr, error) {
	host, port, err := real.SplitHostPort(address)
	if err != nil {
		return nil, &AddrError{Err: "missing port in address", Addr: address}
	}
	p, err := strconv.Atoi(port)
	if err != nil {
		return nil, &AddrError{Err: "invalid port", Addr: address}
	}
	ip := real.ParseIP(host)
	if ip == nil {
		if host == "" || host == "localhost" {
			ip = real.IPv4(127, 0, 0, 1)
		} else {
			// deterministic fake resolution of names
			ip = real.IPv4(10, 9, byte(len(host)), byte(host[0]))
		}
	}
	return &TCPAddr{IP: ip, Port: p}, nil
}

func canon(address string) string {
	a, err := parseAddr("tcp", address)
	if err != nil {
		return address
	}
	return a.String()
}

// ---------------------------------------------------------------------------
// TCP connections

type pipe struct {
	chunks [][]byte
	size   int
	fin    bool // writer closed
	rst    bool
	h      uint64
}

type TCPConn struct {
	id       string
	local    *TCPAddr
	remote   *TCPAddr
	in       *pipe // what we read
	out      *pipe // what the peer reads
	peer     *TCPConn
	closed   bool
	rdl, wdl time.Time
	window   int
	lostOne  bool // a write after the peer closed has already been accepted and lost
	rstSeen  bool // the reset has been reported to one operation already (the kernel reports it once)
	linger0  bool // SetLinger(0): Close aborts the connection
}

func (c *TCPConn) ID() string { return c.id }

func newPair(client, server *TCPAddr, window int) (*TCPConn, *TCPConn) {
	W.nextConn++
	a, b := &pipe{}, &pipe{}
	cc := &TCPConn{id: fmt.Sprintf("c%d", W.nextConn), local: client, remote: server, in: a, out: b, window: window}
	sc := &TCPConn{id: fmt.Sprintf("s%d", W.nextConn), local: server, remote: client, in: b, out: a, window: window}
	cc.peer, sc.peer = sc, cc
	return cc, sc
}

func expired(t time.Time) bool {
	return !t.IsZero() && !vtime.Now().Before(t)
}

func armWake(t time.Time) {
	if t.IsZero() || !vm.Active() {
		return
	}
	d := t.Sub(vtime.Now())
	if d > 0 {
		vm.AddTimer(int64(d), 0, func() {})
	}
}

func (c *TCPConn) Read(b []byte) (int, error) {
	vm.Block("net.Read", func() bool {
		return c.closed || c.in.size > 0 || c.in.fin || c.in.rst || expired(c.rdl)
	})
	vm.Touch(&c.in.h, 0x62)
	switch {
	case c.closed:
		err := opErr("read", "tcp", c.remote, ErrClosed)
		W.log(c.id, "read", 0, nil, err)
		return 0, err
	case expired(c.rdl):
		// a deadline that has passed fails the operation before anything else is looked at (poll.FD.Read)
		err := opErr("read", "tcp", c.remote, os.ErrDeadlineExceeded)
		W.log(c.id, "deadline", 0, nil, err)
		return 0, err
	case c.in.size > 0:
		// queued data is delivered before a reset or an end of stream is reported
		if len(b) == 0 {
			return 0, nil
		}
		want := len(b)
		if W.ShortReads && c.in.size > 1 {
			switch vm.Choose(3, 1) {
			case 1:
				want = 1
			case 2:
				if h := c.in.size / 2; h < want {
					want = h
				}
			}
		}
		n := 0
		for n < want && len(c.in.chunks) > 0 {
			ch := c.in.chunks[0]
			k := copy(b[n:want], ch)
			n += k
			if k == len(ch) {
				c.in.chunks = c.in.chunks[1:]
			} else {
				c.in.chunks[0] = ch[k:]
			}
		}
		c.in.size -= n
		W.log(c.id, "read", n, b[:n], nil)
		return n, nil
	case c.in.rst && !c.rstSeen:
		c.rstSeen = true
		err := opErr("read", "tcp", c.remote, os.NewSyscallError("read", syscall.ECONNRESET))
		W.log(c.id, "read", 0, nil, err)
		return 0, err
	case c.in.rst:
		W.log(c.id, "eof", 0, nil, nil)
		return 0, io.EOF
	case c.in.fin:
		W.log(c.id, "eof", 0, nil, nil)
		return 0, io.EOF
	default:
		err := opErr("read", "tcp", c.remote, os.ErrDeadlineExceeded)
		W.log(c.id, "deadline", 0, nil, err)
		return 0, err
	}
}

func (c *TCPConn) Write(b []byte) (int, error) {
	vm.Block("net.Write", func() bool {
		if c.closed || c.out.rst || c.in.rst || c.peer.closed || expired(c.wdl) {
			return true
		}
		return c.window <= 0 || c.out.size < c.window
	})
	vm.Touch(&c.out.h, 0x63)
	switch {
	case c.closed:
		err := opErr("write", "tcp", c.remote, ErrClosed)
		W.log(c.id, "write", 0, nil, err)
		return 0, err
	case expired(c.wdl):
		// a deadline that has passed fails the write at once, room in the buffer or not (poll.FD.Write)
		err := opErr("write", "tcp", c.remote, os.ErrDeadlineExceeded)
		W.log(c.id, "deadline", 0, nil, err)
		return 0, err
	case c.in.rst && !c.rstSeen:
		// the peer aborted the connection: reported once, as a reset
		c.rstSeen = true
		err := opErr("write", "tcp", c.remote, os.NewSyscallError("write", syscall.ECONNRESET))
		W.log(c.id, "write", 0, nil, err)
		return 0, err
	case c.in.rst || c.out.rst || (c.peer.closed && c.lostOne):
		err := opErr("write", "tcp", c.remote, os.NewSyscallError("write", syscall.EPIPE))
		W.log(c.id, "write", 0, nil, err)
		return 0, err
	case c.peer.closed:
		// accepted by the local kernel, answered by RST: data lost
		c.lostOne = true
		c.in.rst, c.rstSeen = true, true // the peer's kernel answers with RST; the next write sees EPIPE
		W.log(c.id, "write-lost", len(b), b, nil)
		return len(b), nil
	case c.window > 0 && c.out.size >= c.window:
		err := opErr("write", "tcp", c.remote, os.ErrDeadlineExceeded)
		W.log(c.id, "deadline", 0, nil, err)
		return 0, err
	}
	c.out.chunks = append(c.out.chunks, append([]byte{}, b...))
	c.out.size += len(b)
	W.log(c.id, "write", len(b), b, nil)
	return len(b), nil
}

func (c *TCPConn) Close() error {
	vm.PointKind("net.Close")
	vm.Touch(&c.in.h, 0x64)
	vm.Touch(&c.out.h, 0x64)
	if c.closed {
		return opErr("close", "tcp", c.remote, ErrClosed)
	}
	c.closed = true
	if c.in.size > 0 || c.linger0 {
		c.out.rst = true // unread data or linger 0: RST instead of FIN
	} else {
		c.out.fin = true
	}
	W.log(c.id, "close", c.in.size, nil, nil)
	return nil
}

// CloseWrite half-closes the connection.
func (c *TCPConn) CloseWrite() error {
	vm.PointKind("net.CloseWrite")
	vm.Touch(&c.out.h, 0x64)
	c.out.fin = true
	W.log(c.id, "closewrite", 0, nil, nil)
	return nil
}

// Reset aborts the connection (peer sees ECONNRESET).
func (c *TCPConn) Reset() {
	vm.PointKind("net.Reset")
	vm.Touch(&c.in.h, 0x65)
	vm.Touch(&c.out.h, 0x65)
	c.closed = true
	c.out.rst = true
	W.log(c.id, "rst", 0, nil, nil)
}

func (c *TCPConn) LocalAddr() Addr  { return c.local }
func (c *TCPConn) RemoteAddr() Addr { return c.remote }
func (c *TCPConn) SetDeadline(t time.Time) error {
	c.SetReadDeadline(t)
	return c.SetWriteDeadline(t)
}
func (c *TCPConn) SetReadDeadline(t time.Time) error {
	vm.Touch(&c.in.h, 0x66)
	if c.closed {
		return opErr("set", "tcp", c.remote, ErrClosed)
	}
	c.rdl = t
	armWake(t)
	return nil
}
func (c *TCPConn) SetWriteDeadline(t time.Time) error {
	vm.Touch(&c.out.h, 0x66)
	if c.closed {
		return opErr("set", "tcp", c.remote, ErrClosed)
	}
	c.wdl = t
	armWake(t)
	return nil
}
func (c *TCPConn) SetKeepAlive(bool) error                { return nil }
func (c *TCPConn) SetKeepAlivePeriod(time.Duration) error { return nil }
func (c *TCPConn) SetNoDelay(bool) error                  { return nil }
func (c *TCPConn) SetReadBuffer(int) error                { return nil }
func (c *TCPConn) SetWriteBuffer(int) error               { return nil }
func (c *TCPConn) SetLinger(sec int) error                { c.linger0 = sec == 0; return nil }
func (c *TCPConn) File() (*os.File, error)                { return nil, errors.New("vnet: no file") }

// Unread reports the bytes queued towards this side and not yet read.
func (c *TCPConn) Unread() int { return c.in.size }

// ---------------------------------------------------------------------------
// listeners

type TCPListener struct {
	addr    *TCPAddr
	key     string
	backlog []*TCPConn
	closed  bool
	dl      time.Time
	h       uint64
}

func Listen(network, address string) (Listener, error) {
	l, err := listenTCP(network, address)
	if err != nil {
		return nil, err
	}
	return l, nil
}

func ListenTCP(network string, laddr *TCPAddr) (*TCPListener, error) {
	return listenTCP(network, laddr.String())
}

func listenTCP(network, address string) (*TCPListener, error) {
	if network != "tcp" && network != "tcp4" && network != "tcp6" {
		return nil, opErr("listen", network, nil, real.UnknownNetworkError(network))
	}
	a, err := parseAddr(network, address)
	if err != nil {
		return nil, opErr("listen", network, nil, err)
	}
	vm.PointKind("net.Listen")
	vm.Touch(&W.h, 0x67)
	key := a.String()
	if _, ok := W.listeners[key]; ok {
		return nil, opErr("listen", network, a, os.NewSyscallError("bind", syscall.EADDRINUSE))
	}
	l := &TCPListener{addr: a, key: key}
	W.listeners[key] = l
	W.log("L:"+key, "listen", 0, nil, nil)
	return l, nil
}

func (l *TCPListener) Accept() (Conn, error) {
	c, err := l.AcceptTCP()
	if err != nil {
		return nil, err
	}
	return c, nil
}

func (l *TCPListener) AcceptTCP() (*TCPConn, error) {
	vm.Block("net.Accept", func() bool { return l.closed || len(l.backlog) > 0 || expired(l.dl) })
	vm.Touch(&l.h, 0x68)
	switch {
	case l.closed:
		return nil, opErr("accept", "tcp", l.addr, ErrClosed)
	case len(l.backlog) > 0:
		c := l.backlog[0]
		l.backlog = l.backlog[1:]
		W.log(c.id, "accept", 0, nil, nil)
		return c, nil
	default:
		return nil, opErr("accept", "tcp", l.addr, os.ErrDeadlineExceeded)
	}
}

func (l *TCPListener) Close() error {
	vm.PointKind("net.ListenerClose")
	vm.Touch(&l.h, 0x69)
	vm.Touch(&W.h, 0x69)
	if l.closed {
		return opErr("close", "tcp", l.addr, ErrClosed)
	}
	l.closed = true
	delete(W.listeners, l.key)
	// connections never accepted are reset
	for _, c := range l.backlog {
		c.closed = true
		c.out.rst = true
	}
	l.backlog = nil
	W.log("L:"+l.key, "close", 0, nil, nil)
	return nil
}

func (l *TCPListener) Addr() Addr { return l.addr }
func (l *TCPListener) SetDeadline(t time.Time) error {
	vm.Touch(&l.h, 0x6a)
	l.dl = t
	armWake(t)
	return nil
}
func (l *TCPListener) File() (*os.File, error) { return nil, errors.New("vnet: no file") }

// ---------------------------------------------------------------------------
// dialing

func Dial(network, address string) (Conn, error) { return DialTimeout(network, address, 0) }

func DialTimeout(network, address string, timeout time.Duration) (Conn, error) {
	switch network {
	case "tcp", "tcp4", "tcp6":
		c, err := dialTCP(network, address, timeout)
		if err != nil {
			return nil, err
		}
		return c, nil
	case "udp", "udp4", "udp6":
		c, err := dialUDP(network, address)
		if err != nil {
			return nil, err
		}
		return c, nil
	}
	return nil, opErr("dial", network, nil, real.UnknownNetworkError(network))
}

func dialTCP(network, address string, timeout time.Duration) (*TCPConn, error) {
	a, err := parseAddr(network, address)
	if err != nil {
		return nil, opErr("dial", network, nil, err)
	}
	key := a.String()
	vm.PointKind("net.Dial")
	vm.Touch(&W.h, 0x6b)
	if W.blackhole[key] {
		if timeout <= 0 {
			timeout = 127 * time.Second // the kernel's SYN retry limit
		}
		vm.Sleep(int64(timeout))
		err := opErr("dial", network, a, os.ErrDeadlineExceeded)
		W.log("L:"+key, "dial-timeout", 0, nil, err)
		return nil, err
	}
	l := W.listeners[key]
	if l == nil || l.closed {
		err := opErr("dial", network, a, os.NewSyscallError("connect", syscall.ECONNREFUSED))
		W.log("L:"+key, "refuse", 0, nil, err)
		return nil, err
	}
	vm.Touch(&l.h, 0x6c)
	W.nextPort++
	cl := &TCPAddr{IP: real.IPv4(127, 0, 0, 1), Port: W.nextPort}
	cc, sc := newPair(cl, a, W.window[key])
	l.backlog = append(l.backlog, sc)
	W.log(cc.id, "dial", 0, nil, nil)
	return cc, nil
}

// ---------------------------------------------------------------------------
// UDP

type dgram struct {
	data []byte
	from *UDPAddr
}

type UDPConn struct {
	local  *UDPAddr
	remote *UDPAddr // connected socket
	key    string
	q      []dgram
	closed bool
	rdl    time.Time
	h      uint64
}

func ResolveUDPAddr(network, address string) (*UDPAddr, error) {
	a, err := parseAddr(network, address)
	if err != nil {
		return nil, err
	}
	return &UDPAddr{IP: a.IP, Port: a.Port}, nil
}

func ResolveTCPAddr(network, address string) (*TCPAddr, error) { return parseAddr(network, address) }

func ListenUDP(network string, laddr *UDPAddr) (*UDPConn, error) {
	vm.PointKind("net.ListenUDP")
	vm.Touch(&W.h, 0x6d)
	key := laddr.String()
	if _, ok := W.udp[key]; ok {
		return nil, opErr("listen", network, laddr, os.NewSyscallError("bind", syscall.EADDRINUSE))
	}
	u := &UDPConn{local: laddr, key: key}
	W.udp[key] = u
	W.log("u:"+key, "listen", 0, nil, nil)
	return u, nil
}

func DialUDP(network string, laddr, raddr *UDPAddr) (*UDPConn, error) {
	return dialUDP(network, raddr.String())
}

func dialUDP(network, address string) (*UDPConn, error) {
	a, err := parseAddr(network, address)
	if err != nil {
		return nil, opErr("dial", network, nil, err)
	}
	vm.PointKind("net.DialUDP")
	vm.Touch(&W.h, 0x6d)
	W.nextPort++
	l := &UDPAddr{IP: real.IPv4(127, 0, 0, 1), Port: W.nextPort}
	u := &UDPConn{local: l, remote: &UDPAddr{IP: a.IP, Port: a.Port}, key: l.String()}
	W.udp[u.key] = u
	W.log("u:"+u.key, "dial", 0, nil, nil)
	return u, nil
}

func (u *UDPConn) ReadFromUDP(b []byte) (int, *UDPAddr, error) {
	vm.Block("net.ReadFromUDP", func() bool { return u.closed || len(u.q) > 0 || expired(u.rdl) })
	vm.Touch(&u.h, 0x6e)
	switch {
	case u.closed:
		return 0, nil, opErr("read", "udp", u.local, ErrClosed)
	case len(u.q) > 0:
		d := u.q[0]
		u.q = u.q[1:]
		n := copy(b, d.data)
		W.log("u:"+u.key, "read", n, b[:n], nil)
		return n, d.from, nil
	default:
		return 0, nil, opErr("read", "udp", u.local, os.ErrDeadlineExceeded)
	}
}

func (u *UDPConn) ReadFrom(b []byte) (int, Addr, error) {
	n, a, err := u.ReadFromUDP(b)
	if a == nil {
		return n, nil, err
	}
	return n, a, err
}

func (u *UDPConn) Read(b []byte) (int, error) {
	n, _, err := u.ReadFromUDP(b)
	return n, err
}

func (u *UDPConn) WriteToUDP(b []byte, addr *UDPAddr) (int, error) {
	vm.PointKind("net.WriteToUDP")
	if u.closed {
		return 0, opErr("write", "udp", u.local, ErrClosed)
	}
	dst := W.udp[addr.String()]
	W.log("u:"+u.key, "write", len(b), b, nil)
	if dst == nil || dst.closed {
		return len(b), nil // dropped
	}
	vm.Touch(&dst.h, 0x6f)
	dst.q = append(dst.q, dgram{data: append([]byte{}, b...), from: u.local})
	return len(b), nil
}

func (u *UDPConn) WriteTo(b []byte, addr Addr) (int, error) {
	ua, ok := addr.(*UDPAddr)
	if !ok {
		return 0, opErr("write", "udp", u.local, errors.New("vnet: bad address"))
	}
	return u.WriteToUDP(b, ua)
}

func (u *UDPConn) Write(b []byte) (int, error) {
	if u.remote == nil {
		return 0, opErr("write", "udp", u.local, errors.New("destination address required"))
	}
	return u.WriteToUDP(b, u.remote)
}

func (u *UDPConn) Close() error {
	vm.PointKind("net.Close")
	vm.Touch(&u.h, 0x64)
	if u.closed {
		return opErr("close", "udp", u.local, ErrClosed)
	}
	u.closed = true
	delete(W.udp, u.key)
	W.log("u:"+u.key, "close", 0, nil, nil)
	return nil
}

func (u *UDPConn) LocalAddr() Addr { return u.local }
func (u *UDPConn) RemoteAddr() Addr {
	if u.remote == nil {
		return nil
	}
	return u.remote
}
func (u *UDPConn) SetDeadline(t time.Time) error { return u.SetReadDeadline(t) }
func (u *UDPConn) SetReadDeadline(t time.Time) error {
	vm.Touch(&u.h, 0x66)
	u.rdl = t
	armWake(t)
	return nil
}
func (u *UDPConn) SetWriteDeadline(t time.Time) error { return nil }
func (u *UDPConn) SetReadBuffer(int) error            { return nil }
func (u *UDPConn) SetWriteBuffer(int) error           { return nil }
func (u *UDPConn) File() (*os.File, error)            { return nil, errors.New("vnet: no file") }

// ---------------------------------------------------------------------------
// inherited descriptors do not exist in the virtual world

func FileListener(f *os.File) (Listener, error) {
	return nil, errors.New("vnet: FileListener unsupported")
}
func FileConn(f *os.File) (Conn, error) { return nil, errors.New("vnet: FileConn unsupported") }

// PeerUnread reports the bytes written by this side that the peer has not read yet.
func (c *TCPConn) PeerUnread() int { return c.out.size }

// PeerClosed reports whether the other side closed its end.
func (c *TCPConn) PeerClosed() bool { return c.peer.closed }

// LocalClosed reports whether this side closed the connection.
func (c *TCPConn) LocalClosed() bool { return c.closed }
