// Package os forwards to the real os package except for Exit, which ends the
// controlled execution instead of the process, and, inside an execution, Chdir
// (nothing happens) and OpenFile (an environment choice: the file can be
// created - then it is the null device - or it cannot).
package os

import (
	real "os"

	"verif/vm"
)

func Exit(code int) {
	if vm.Active() {
		vm.Exit(code)
	}
	real.Exit(code)
}

// Chdir does not move the explorer's working directory.
func Chdir(dir string) error {
	if vm.Active() {
		return nil
	}
	return real.Chdir(dir)
}

// OpenFile: inside an execution the environment decides whether the file can be opened; what is written
// to it goes nowhere.
func OpenFile(name string, flag int, perm FileMode) (*File, error) {
	if vm.Active() {
		if vm.Choose(2, 1) == 1 {
			return nil, &real.PathError{Op: "open", Path: name, Err: real.ErrPermission}
		}
		return real.OpenFile(real.DevNull, real.O_WRONLY, 0)
	}
	return real.OpenFile(name, flag, perm)
}
