// Package os forwards to the real os package except for Exit, which ends the
// controlled execution instead of the process.
package os

import (
	real "os"

	"verif/vm"
)

func Exit(code int) {
	if vm.Active() {
		vm.Exit(code)
	}
	real.Exit(code)
}
