// Package rand is the controlled replacement of math/rand: small draws are
// environment choices explored exhaustively, large ones come from a fixed
// deterministic sequence.
package rand

import (
	real "math/rand"

	"verif/vm"
)

// MaxEnum is the largest n for which Intn(n) is enumerated.
var MaxEnum = 8

type Source = real.Source
type Source64 = real.Source64

func NewSource(seed int64) Source { return real.NewSource(1) }

type Rand struct {
	r *real.Rand
}

func New(src Source) *Rand { return &Rand{r: real.New(real.NewSource(1))} }

var global = New(nil)

func init() { vm.OnReset(func() { global.r = real.New(real.NewSource(1)) }) }

func (r *Rand) fresh() *real.Rand {
	return r.r
}

func (r *Rand) Intn(n int) int {
	if n <= 0 {
		panic("invalid argument to Intn")
	}
	if vm.Active() && n <= MaxEnum {
		return vm.Choose(n, 0)
	}
	return r.r.Intn(n)
}
func (r *Rand) Int31n(n int32) int32 { return int32(r.Intn(int(n))) }
func (r *Rand) Int63n(n int64) int64 {
	if n <= int64(MaxEnum) {
		return int64(r.Intn(int(n)))
	}
	return r.r.Int63n(n)
}
func (r *Rand) Int() int                           { return r.r.Int() }
func (r *Rand) Int31() int32                       { return r.r.Int31() }
func (r *Rand) Int63() int64                       { return r.r.Int63() }
func (r *Rand) Uint32() uint32                     { return r.r.Uint32() }
func (r *Rand) Uint64() uint64                     { return r.r.Uint64() }
func (r *Rand) Float64() float64                   { return r.r.Float64() }
func (r *Rand) Float32() float32                   { return r.r.Float32() }
func (r *Rand) Perm(n int) []int                   { return r.r.Perm(n) }
func (r *Rand) Seed(seed int64)                    {}
func (r *Rand) Shuffle(n int, swap func(i, j int)) { r.r.Shuffle(n, swap) }
func (r *Rand) Read(p []byte) (int, error)         { return r.r.Read(p) }

func Seed(seed int64)                    {}
func Intn(n int) int                     { return global.Intn(n) }
func Int31n(n int32) int32               { return global.Int31n(n) }
func Int63n(n int64) int64               { return global.Int63n(n) }
func Int() int                           { return global.Int() }
func Int31() int32                       { return global.Int31() }
func Int63() int64                       { return global.Int63() }
func Uint32() uint32                     { return global.Uint32() }
func Uint64() uint64                     { return global.Uint64() }
func Float64() float64                   { return global.Float64() }
func Float32() float32                   { return global.Float32() }
func Perm(n int) []int                   { return global.Perm(n) }
func Shuffle(n int, swap func(i, j int)) { global.Shuffle(n, swap) }
func Read(p []byte) (int, error)         { return global.Read(p) }
