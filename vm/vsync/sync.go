// Package sync is the controlled replacement of the standard sync package.
package sync

import (
	"fmt"
	"sort"
	"verif/vm"
)

type Locker interface {
	Lock()
	Unlock()
}

type Mutex struct {
	epoch  uint64
	locked bool
	h      uint64
}

func (m *Mutex) fresh() {
	if e := vm.Epoch(); m.epoch != e {
		m.epoch, m.locked, m.h = e, false, 0
	}
}

func (m *Mutex) Lock() {
	m.fresh()
	vm.Block("Mutex.Lock", func() bool { m.fresh(); return !m.locked })
	m.fresh()
	vm.Touch(&m.h, 0x21)
	m.locked = true
}

func (m *Mutex) TryLock() bool {
	m.fresh()
	vm.PointKind("Mutex.TryLock")
	m.fresh()
	vm.Touch(&m.h, 0x22)
	if m.locked {
		return false
	}
	m.locked = true
	return true
}

func (m *Mutex) Unlock() {
	m.fresh()
	if !m.locked {
		panic("sync: unlock of unlocked mutex")
	}
	vm.Touch(&m.h, 0x23)
	m.locked = false
}

type RWMutex struct {
	epoch   uint64
	writer  bool
	readers int
	h       uint64
}

func (m *RWMutex) fresh() {
	if e := vm.Epoch(); m.epoch != e {
		m.epoch, m.writer, m.readers, m.h = e, false, 0, 0
	}
}

func (m *RWMutex) Lock() {
	m.fresh()
	vm.Block("RWMutex.Lock", func() bool { m.fresh(); return !m.writer && m.readers == 0 })
	m.fresh()
	vm.Touch(&m.h, 0x24)
	m.writer = true
}

func (m *RWMutex) Unlock() {
	m.fresh()
	if !m.writer {
		panic("sync: Unlock of unlocked RWMutex")
	}
	vm.Touch(&m.h, 0x25)
	m.writer = false
}

func (m *RWMutex) RLock() {
	m.fresh()
	vm.Block("RWMutex.RLock", func() bool { m.fresh(); return !m.writer })
	m.fresh()
	vm.Touch(&m.h, 0x26)
	m.readers++
}

func (m *RWMutex) RUnlock() {
	m.fresh()
	if m.readers <= 0 {
		panic("sync: RUnlock of unlocked RWMutex")
	}
	vm.Touch(&m.h, 0x27)
	m.readers--
}

func (m *RWMutex) TryLock() bool {
	m.fresh()
	vm.PointKind("RWMutex.TryLock")
	m.fresh()
	vm.Touch(&m.h, 0x28)
	if m.writer || m.readers > 0 {
		return false
	}
	m.writer = true
	return true
}

func (m *RWMutex) TryRLock() bool {
	m.fresh()
	vm.PointKind("RWMutex.TryRLock")
	m.fresh()
	vm.Touch(&m.h, 0x29)
	if m.writer {
		return false
	}
	m.readers++
	return true
}

type rlocker RWMutex

func (r *rlocker) Lock()   { (*RWMutex)(r).RLock() }
func (r *rlocker) Unlock() { (*RWMutex)(r).RUnlock() }

func (m *RWMutex) RLocker() Locker { return (*rlocker)(m) }

type WaitGroup struct {
	epoch uint64
	n     int
	h     uint64
}

func (w *WaitGroup) fresh() {
	if e := vm.Epoch(); w.epoch != e {
		w.epoch, w.n, w.h = e, 0, 0
	}
}

func (w *WaitGroup) Add(d int) {
	w.fresh()
	vm.Touch(&w.h, 0x2a)
	w.n += d
	if w.n < 0 {
		panic("sync: negative WaitGroup counter")
	}
}

func (w *WaitGroup) Done() { w.Add(-1) }

func (w *WaitGroup) Wait() {
	w.fresh()
	vm.Block("WaitGroup.Wait", func() bool { w.fresh(); return w.n == 0 })
	vm.Touch(&w.h, 0x2b)
}

type Once struct {
	epoch   uint64
	done    bool
	running bool
	h       uint64
}

func (o *Once) fresh() {
	if e := vm.Epoch(); o.epoch != e {
		o.epoch, o.done, o.running, o.h = e, false, false, 0
	}
}

func (o *Once) Do(f func()) {
	o.fresh()
	vm.Block("Once.Do", func() bool { o.fresh(); return !o.running })
	o.fresh()
	vm.Touch(&o.h, 0x2c)
	if o.done {
		return
	}
	o.running = true
	defer func() {
		o.fresh()
		vm.Touch(&o.h, 0x2d)
		o.running = false
		o.done = true
	}()
	f()
}

// Map: deterministic (insertion-ordered) replacement of sync.Map; its
// contents do not survive from one execution to the next.
type Map struct {
	epoch uint64
	m     map[any]*entry
	seq   uint64
	h     uint64
}

type entry struct {
	v   any
	seq uint64
}

func (m *Map) fresh() {
	if e := vm.Epoch(); m.epoch != e || m.m == nil {
		m.epoch, m.m, m.seq, m.h = e, map[any]*entry{}, 0, 0
	}
}

func (m *Map) pt(kind string, k uint64) {
	m.fresh()
	vm.PointKind(kind)
	m.fresh()
	vm.Touch(&m.h, k)
}

func (m *Map) Load(key any) (any, bool) {
	m.pt("Map.Load", 0x31)
	e, ok := m.m[key]
	if !ok {
		return nil, false
	}
	return e.v, true
}

func (m *Map) Store(key, value any) {
	m.pt("Map.Store", 0x32)
	m.store(key, value)
}

func (m *Map) store(key, value any) {
	if e, ok := m.m[key]; ok {
		e.v = value
		return
	}
	m.seq++
	m.m[key] = &entry{v: value, seq: m.seq}
}

func (m *Map) LoadOrStore(key, value any) (any, bool) {
	m.pt("Map.LoadOrStore", 0x33)
	if e, ok := m.m[key]; ok {
		return e.v, true
	}
	m.store(key, value)
	return value, false
}

func (m *Map) LoadAndDelete(key any) (any, bool) {
	m.pt("Map.LoadAndDelete", 0x34)
	e, ok := m.m[key]
	if !ok {
		return nil, false
	}
	delete(m.m, key)
	return e.v, true
}

func (m *Map) Delete(key any) {
	m.pt("Map.Delete", 0x35)
	delete(m.m, key)
}

func (m *Map) Swap(key, value any) (any, bool) {
	m.pt("Map.Swap", 0x36)
	if e, ok := m.m[key]; ok {
		old := e.v
		e.v = value
		return old, true
	}
	m.store(key, value)
	return nil, false
}

func (m *Map) CompareAndSwap(key, old, new any) bool {
	m.pt("Map.CompareAndSwap", 0x37)
	if e, ok := m.m[key]; ok && e.v == old {
		e.v = new
		return true
	}
	return false
}

func (m *Map) CompareAndDelete(key, old any) bool {
	m.pt("Map.CompareAndDelete", 0x38)
	if e, ok := m.m[key]; ok && e.v == old {
		delete(m.m, key)
		return true
	}
	return false
}

// Range visits a snapshot of the entries in insertion order; like the real
// Map it is not an atomic snapshot with respect to the callbacks' own
// scheduling points.
func (m *Map) Range(f func(key, value any) bool) {
	m.pt("Map.Range", 0x39)
	type kv struct {
		k, v any
		seq  uint64
	}
	var all []kv
	for k, e := range m.m {
		all = append(all, kv{k, e.v, e.seq})
	}
	sort.Slice(all, func(i, j int) bool { return all[i].seq < all[j].seq })
	for _, e := range all {
		m.fresh()
		if cur, ok := m.m[e.k]; !ok || cur.seq != e.seq {
			continue // deleted meanwhile
		} else if !f(e.k, cur.v) {
			break
		}
	}
}

// Clear removes all entries.
func (m *Map) Clear() {
	m.pt("Map.Clear", 0x3a)
	m.m = map[any]*entry{}
}

// Pool really pools (LIFO) within one execution, so that code which hands an
// object back while somebody else can still reach it is exposed; the contents
// do not survive into the next execution.
type Pool struct {
	New   func() any
	epoch uint64
	items []any
	h     uint64
}

func (p *Pool) fresh() {
	if e := vm.Epoch(); p.epoch != e {
		p.epoch, p.items, p.h = e, nil, 0
	}
}

func (p *Pool) Get() any {
	p.fresh()
	vm.PointKind("Pool.Get")
	p.fresh()
	vm.Touch(&p.h, 0x3e)
	if n := len(p.items); n > 0 {
		x := p.items[n-1]
		p.items = p.items[:n-1]
		return x
	}
	if p.New != nil {
		return p.New()
	}
	return nil
}

func (p *Pool) Put(x any) {
	if x == nil {
		return
	}
	p.fresh()
	vm.PointKind("Pool.Put")
	p.fresh()
	vm.Touch(&p.h, 0x3f)
	p.items = append(p.items, x)
}

// Cond
type Cond struct {
	L     Locker
	epoch uint64
	gen   uint64 // broadcast generation
	sig   int    // pending signals
	wait  int
	h     uint64
}

func NewCond(l Locker) *Cond { return &Cond{L: l} }

func (c *Cond) fresh() {
	if e := vm.Epoch(); c.epoch != e {
		c.epoch, c.gen, c.sig, c.wait, c.h = e, 0, 0, 0, 0
	}
}

func (c *Cond) Wait() {
	c.fresh()
	g := c.gen
	c.wait++
	c.L.Unlock()
	woke := false
	vm.Block("Cond.Wait", func() bool {
		c.fresh()
		return c.gen != g || c.sig > 0
	})
	c.fresh()
	vm.Touch(&c.h, 0x3b)
	if c.gen == g && c.sig > 0 {
		c.sig--
	}
	c.wait--
	_ = woke
	c.L.Lock()
}

func (c *Cond) Signal() {
	c.fresh()
	vm.Touch(&c.h, 0x3c)
	if c.wait > c.sig {
		c.sig++
	}
}

func (c *Cond) Broadcast() {
	c.fresh()
	vm.Touch(&c.h, 0x3d)
	c.gen++
	c.sig = 0
}

var _ = fmt.Sprint
