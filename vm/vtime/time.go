// Package time is the controlled replacement of the standard time package:
// the clock is the scheduler's virtual clock.
package time

import (
	real "time"

	"verif/vm"
)

type Duration = real.Duration
type Time = real.Time

// base is the wall-clock reading at virtual time 0.
var base = real.Date(2024, 1, 1, 0, 0, 0, 0, real.UTC)

func Now() Time {
	return base.Add(Duration(vm.Now()))
}

func Since(t Time) Duration { return Now().Sub(t) }
func Until(t Time) Duration { return t.Sub(Now()) }

func Sleep(d Duration) {
	if !vm.Active() {
		return
	}
	vm.Sleep(int64(d))
}

func After(d Duration) <-chan Time { return NewTimer(d).C }

func Tick(d Duration) <-chan Time {
	if d <= 0 {
		return nil
	}
	return NewTicker(d).C
}

type Timer struct {
	C <-chan Time
	c chan Time
	t *vm.Timer
	f func()
}

func NewTimer(d Duration) *Timer {
	c := make(chan Time, 1)
	t := &Timer{C: c, c: c}
	if !vm.Active() {
		return t
	}
	t.t = vm.AddTimer(int64(d), 0, func() { vm.TimerSend(c, Now()) })
	return t
}

func AfterFunc(d Duration, f func()) *Timer {
	t := &Timer{f: f}
	if !vm.Active() {
		return t
	}
	t.t = vm.AddTimer(int64(d), 0, func() { vm.SpawnFromTimer(f) })
	return t
}

func (t *Timer) Stop() bool {
	if t.t == nil {
		return false
	}
	vm.PointKind("Timer.Stop")
	return t.t.Stop()
}

func (t *Timer) Reset(d Duration) bool {
	if t.t == nil {
		return false
	}
	vm.PointKind("Timer.Reset")
	return t.t.Reset(int64(d))
}

type Ticker struct {
	C <-chan Time
	c chan Time
	t *vm.Timer
}

func NewTicker(d Duration) *Ticker {
	if d <= 0 {
		panic("non-positive interval for NewTicker")
	}
	c := make(chan Time, 1)
	t := &Ticker{C: c, c: c}
	if !vm.Active() {
		return t
	}
	t.t = vm.AddTimer(int64(d), int64(d), func() { vm.TimerSend(c, Now()) })
	return t
}

func (t *Ticker) Stop() {
	if t.t == nil {
		return
	}
	vm.PointKind("Ticker.Stop")
	t.t.Stop()
}

func (t *Ticker) Reset(d Duration) {
	if t.t == nil {
		return
	}
	vm.PointKind("Ticker.Reset")
	t.t.Stop()
	t.t = vm.AddTimer(int64(d), int64(d), func() { vm.TimerSend(t.c, Now()) })
}
